"""Shared machinery of every check: Lean phase (translate, build, re-elaborate, audit), correspondence
runner, failing-input search, known findings, evidence, exit codes.

A property module (harness/cXX.py) defines a subclass of PropertyCheck.
"""
import hashlib
import json
import multiprocessing as mp
import os
import random
import re
import subprocess
import sys
import time

HERE = os.path.dirname(os.path.abspath(__file__))
VERIF = os.path.abspath(os.path.join(HERE, '..'))
LEAN = os.path.join(VERIF, 'lean')
EVID = os.environ.get('VERIF_EVIDENCE_DIR') or os.path.join(VERIF, 'evidence')      # (tools/run_seeded.py points this elsewhere: runs against a changed tree are not evidence)
REPLAY = os.path.join(EVID, 'replay')
PROOF_TIMEOUT = int(os.environ.get('VERIF_PROOF_TIMEOUT', '300'))
ALLOWED_AXIOMS = {'propext', 'Classical.choice', 'Quot.sound'}
FORBIDDEN = re.compile(r'\bsorry\b|\badmit\b|^\s*axiom\s|native_decide|bv_decide|implemented_by|\bunsafe\s|maxHeartbeats\s+0\b',
                       re.M)

TRUSTED_BASE = [
    'Lean 4.33.0 kernel (leanchecker re-check in the thorough tier)',
    'axioms per theorem as printed by #print axioms; allowed: propext, Classical.choice, Quot.sound',
    'hand-written Lean model of the Python code (Wal/Model/*.lean): modelled, not extracted',
    'translator tools/gen_lean.py for the data parts (Operator enum, std.wal forms, initial global frame)',
    'correspondence harness: generators, canonicalisation (harness/wire.py, session.py), per-property Python oracle',
    'CPython semantics of int, dict order, str.split, re (modelled by hand in the Lean definitions)',
]


class Infra(Exception):
    """infrastructure trouble: exit 2, never a VIOLATION"""


def sh(cmd, cwd=None, timeout=3600):
    """run a command in its own process group; on timeout the whole group is killed (lake -> lean children)"""
    import signal
    p = subprocess.Popen(cmd, cwd=cwd, stdout=subprocess.PIPE, stderr=subprocess.STDOUT, start_new_session=True)
    try:
        out, _ = p.communicate(timeout=timeout)
    except subprocess.TimeoutExpired:
        try:
            os.killpg(p.pid, signal.SIGKILL)
        except ProcessLookupError:
            pass
        p.wait()
        raise
    return p.returncode, out.decode('utf-8', 'replace')


# ----------------------------------------------------------------------------- Lean phase

def strip_comments(src):
    """remove /- -/ (nested) and -- comments so that forbidden-token hits inside comments are discarded"""
    out = []
    i, n, depth = 0, len(src), 0
    while i < n:
        if src.startswith('/-', i):
            depth += 1
            i += 2
        elif depth > 0 and src.startswith('-/', i):
            depth -= 1
            i += 2
        elif depth > 0:
            if src[i] == '\n':
                out.append('\n')
            i += 1
        elif src.startswith('--', i):
            while i < n and src[i] != '\n':
                i += 1
        elif src[i] == "'" and re.match(r"'(\\x[0-9a-fA-F]{2}|\\u\{?[0-9a-fA-F]+\}?|\\.|[^\\'])'", src[i:i + 12]):
            m = re.match(r"'(\\x[0-9a-fA-F]{2}|\\u\{?[0-9a-fA-F]+\}?|\\.|[^\\'])'", src[i:i + 12])
            out.append("' '")
            i += m.end()
        elif src[i] == '"':
            j = i + 1
            while j < n and src[j] != '"':
                j += 2 if src[j] == '\\' else 1
            out.append('""')
            i = j + 1
        else:
            out.append(src[i])
            i += 1
    return ''.join(out)


def lean_sources():
    res = []
    for root, _dirs, files in os.walk(LEAN):
        if '.lake' in root:
            continue
        for f in files:
            if f.endswith('.lean'):
                res.append(os.path.join(root, f))
    return sorted(res)


def theorems_of(path):
    """fully qualified names of the theorems stated in a Props file (nested namespaces are tracked)"""
    src = strip_comments(open(path, encoding='utf-8').read())
    stack = []
    names = []
    for line in src.split('\n'):
        m = re.match(r'^namespace\s+([\w.]+)', line)
        if m:
            stack.append(m.group(1))
            continue
        m = re.match(r'^end\s+([\w.]+)', line)
        if m and stack and stack[-1] == m.group(1):
            stack.pop()
            continue
        m = re.match(r'^\s*(?:protected\s+)?theorem\s+([\w.\']+)', line)
        if m:
            names.append('.'.join(stack + [m.group(1)]))
    return names


def lean_phase(pid, tier, log):
    """returns dict(ok, obligations, discharged, theorems=[{name, axioms}], failures=[...], wall_s)"""
    t0 = time.time()
    res = {'ok': True, 'obligations': 0, 'discharged': 0, 'theorems': [], 'failures': [], 'partial': []}
    rc, out = sh(['/venv/bin/python', os.path.join(VERIF, 'tools', 'gen_lean.py')])
    log(out.strip())
    if rc != 0:
        res['ok'] = False
        res['failures'].append({'stage': 'translate', 'detail': out[-2000:]})
        res['wall_s'] = time.time() - t0
        return res
    # model + driver only: the property files are built one by one below, under a time limit
    try:
        rc, out = sh(['lake', 'build', 'walmodel'], cwd=LEAN, timeout=1500)
    except subprocess.TimeoutExpired:
        rc, out = 1, 'timeout building the model'
    if rc != 0:
        bad = re.findall(r'^error: (\S+\.lean:\d+:\d+: .*)$', out, re.M)[:10]
        res['ok'] = False
        res['failures'].append({'stage': 'build', 'detail': bad or out[-2000:]})
        res['wall_s'] = time.time() - t0
        return res
    props = os.path.join(LEAN, 'Wal', 'Props', f'{pid}.lean')
    if not os.path.exists(props):
        res['wall_s'] = time.time() - t0
        return res
    # a property may have further theorem files Props/Cxx_<Name>.lean (e.g. global statements that import the lemma files)
    import glob
    extra = sorted(glob.glob(os.path.join(LEAN, 'Wal', 'Props', f'{pid}_*.lean')))
    modules = [f'Wal.Props.{pid}'] + ['Wal.Props.' + os.path.basename(x)[:-5] for x in extra]
    # (re)build the property's modules and what they import; a proof that no longer terminates counts as broken
    try:
        rc, out = sh(['lake', 'build'] + modules, cwd=LEAN, timeout=PROOF_TIMEOUT)
    except subprocess.TimeoutExpired:
        rc, out = 1, f'timeout ({PROOF_TIMEOUT}s) building {modules}'
    if rc != 0:
        bad = re.findall(r'^error: (\S+\.lean:\d+:\d+: .*)$', out, re.M)[:10]
        res['ok'] = False
        res['failures'].append({'stage': 'build-props', 'detail': bad or out[-2000:]})
        res['obligations'] = sum(len(theorems_of(x)) for x in [props] + extra)
        res['wall_s'] = time.time() - t0
        return res
    # re-elaborate the property's own files on every run
    for pf in [props] + extra:
        try:
            rc, out = sh(['lake', 'env', 'lean', pf], cwd=LEAN, timeout=PROOF_TIMEOUT)
        except subprocess.TimeoutExpired:
            rc, out = 1, f'timeout ({PROOF_TIMEOUT}s) elaborating {pf}'
        if rc != 0 or re.search(r'^\S+: error', out, re.M) or 'declaration uses `sorry`' in out:
            res['ok'] = False
            res['failures'].append({'stage': 'elaborate', 'file': pf, 'detail': out[-3000:]})
    names = [nm for x in [props] + extra for nm in theorems_of(x)]
    res['obligations'] = len(names)
    res['partial'] = [n for n in names if n.endswith('_partial')]
    # axiom audit
    audit = os.path.join(LEAN, '.lake', f'audit_{pid}.lean')
    os.makedirs(os.path.dirname(audit), exist_ok=True)
    with open(audit, 'w') as f:
        for m in modules:
            f.write(f'import {m}\n')
        for nm in names:
            f.write(f'#print axioms {nm}\n')
    rc, out = sh(['lake', 'env', 'lean', audit], cwd=LEAN)
    ax = {}
    for m in re.finditer(r"'([^']+)' depends on axioms: \[([^\]]*)\]", out, re.S):
        ax[m.group(1)] = [a.strip() for a in m.group(2).replace('\n', ' ').split(',') if a.strip()]
    for m in re.finditer(r"'([^']+)' does not depend on any axioms", out):
        ax[m.group(1)] = []
    for nm in names:
        if nm not in ax:
            res['ok'] = False
            res['failures'].append({'stage': 'audit', 'theorem': nm, 'detail': 'no #print axioms output (theorem missing?)'})
            res['theorems'].append({'name': nm, 'axioms': None})
            continue
        bad = [a for a in ax[nm] if a not in ALLOWED_AXIOMS]
        res['theorems'].append({'name': nm, 'axioms': ax[nm]})
        if bad:
            res['ok'] = False
            res['failures'].append({'stage': 'audit', 'theorem': nm, 'detail': f'forbidden axioms {bad}'})
        else:
            res['discharged'] += 1
    # forbidden constructs anywhere in the Lean sources (comments and strings stripped)
    for p in lean_sources():
        src = strip_comments(open(p, encoding='utf-8').read())
        m = FORBIDDEN.search(src)
        if m:
            res['ok'] = False
            res['failures'].append({'stage': 'grep', 'file': p, 'detail': m.group(0)})
    if tier == 'thorough':
        rc, out = sh(['lake', 'env', 'leanchecker'] + modules, cwd=LEAN, timeout=3000)
        res['leanchecker'] = 'ok' if rc == 0 else out[-1500:]
        if rc != 0:
            res['ok'] = False
            res['failures'].append({'stage': 'leanchecker', 'detail': out[-1500:]})
    res['wall_s'] = time.time() - t0
    return res


# ----------------------------------------------------------------------------- property checks

class PropertyCheck:
    pid = 'C00'
    title = ''
    design_ref = ''
    quick_cases = 300
    thorough_cases = 5000
    rule = ''
    assumptions = []
    max_skip_share = 0.5
    procs_quick = 8
    procs_thorough = 16

    # --- to be provided by the property module
    def cases(self, rng, tier, n):
        """yield JSON-serialisable case dicts"""
        raise NotImplementedError

    def corpus(self):
        """cases that always run first (minimised past failures, hand-written corner cases)"""
        d = os.path.join(VERIF, 'corpus', self.pid)
        res = []
        if os.path.isdir(d):
            for f in sorted(os.listdir(d)):
                if f.endswith('.json'):
                    res.append(json.load(open(os.path.join(d, f))))
        return res

    def steps(self, case):
        """session steps for the correspondence (or None when the case is oracle-only)"""
        return None

    def oracle(self, case, iobs):
        """property oracle on the implementation alone; iobs = observations of steps(case).
        return None (holds) or a JSON-serialisable description of the violation"""
        return None

    def nontrivial(self, case, iobs):
        return True

    def classify(self, case):
        """label for the input-distribution histogram"""
        return 'case'

    def model_obs(self, all_steps):
        from . import session
        return session.run_model_cases(all_steps)

    def compare(self, case, steps, iobs, mobs):
        from . import session
        return session.compare(steps, iobs, mobs)


_CHECK = None


def _work(case):
    """worker: run the implementation side + oracle for one case"""
    from . import session
    try:
        steps = _CHECK.steps(case)
        iobs = session.run_impl(steps) if steps is not None else None
        viol = _CHECK.oracle(case, iobs)
        nt = bool(_CHECK.nontrivial(case, iobs))
        return (iobs, viol, nt, None)
    except Exception as e:  # noqa: BLE001
        import traceback
        return (None, None, False, traceback.format_exc()[-1500:] + repr(e))


def _init_worker(check):
    global _CHECK
    _CHECK = check
    from . import impl
    impl._tmpdir = None        # a directory inherited from the parent process must not be shared between workers
    impl.workdir()


def case_hash(case):
    return hashlib.sha256(json.dumps(case, sort_keys=True, default=str).encode()).hexdigest()[:16]


def load_findings():
    p = os.path.join(VERIF, 'known_findings.json')
    if not os.path.exists(p):
        return {'findings': [], 'fixed': []}
    return json.load(open(p))


def run_check(check, tier, seed, replay=None):
    import shutil
    import tempfile
    root = tempfile.mkdtemp(prefix='walverif-root-')
    os.environ['WALVERIF_TMP'] = root
    try:
        return _run_check(check, tier, seed, replay)
    finally:
        os.chdir('/')
        shutil.rmtree(root, ignore_errors=True)


def _run_check(check, tier, seed, replay=None):
    from . import findings as fmod
    t0 = time.time()
    pid = check.pid
    os.makedirs(EVID, exist_ok=True)
    os.makedirs(REPLAY, exist_ok=True)
    logs = []

    def log(s):
        if s:
            logs.append(s)
            print(s, flush=True)

    global _CHECK
    _CHECK = check
    if replay:
        data = json.load(open(replay))
        case = data.get('case')
        if case is None:
            print(f'replay file names a broken obligation, nothing to execute: {data.get("detail")}')
            return 1
        _init_worker(check)
        iobs, viol, _nt, err = _work(case)
        if err:
            print('INFRA', err)
            return 2
        if viol:
            print(f'VIOLATION property={pid} replay={replay}')
            print(json.dumps(viol, indent=1, default=str)[:3000])
            return 1
        print('replay: property holds on this input now')
        return 0

    lean = lean_phase(pid, tier, log)
    log(f'[{pid}] lean phase: ok={lean["ok"]} obligations={lean["obligations"]} discharged={lean["discharged"]} '
        f'({lean["wall_s"]:.1f}s)')

    rng = random.Random(f'{pid}-{seed}')
    n = check.quick_cases if tier == 'quick' else check.thorough_cases
    cases = list(check.corpus())
    n_corpus = len(cases)
    cases.extend(check.cases(rng, tier, n))
    procs = check.procs_quick if tier == 'quick' else check.procs_thorough
    procs = max(1, min(procs, os.cpu_count() or 1))
    chunk = max(1, len(cases) // (procs * 8) or 1)
    if procs > 1:
        with mp.get_context('fork').Pool(procs, initializer=_init_worker, initargs=(check,)) as pool:
            work = pool.map(_work, cases, chunksize=chunk)
    else:
        _init_worker(check)
        work = [_work(c) for c in cases]
    infra = [w[3] for w in work if w[3]]
    if infra:
        print('INFRA: worker failure:\n' + infra[0])
        return 2

    # model side, in one batch
    all_steps = [check.steps(c) for c in cases]
    have_steps = [i for i, s in enumerate(all_steps) if s is not None]
    mobs_by_case = {}
    model_broken = None
    if have_steps and os.path.exists(os.path.join(LEAN, '.lake', 'build', 'bin', 'walmodel')):
        try:
            from . import session as _session
            _session.COVER = bool(getattr(check, 'theorem_coverage', False))
            mres = check.model_obs([all_steps[i] for i in have_steps])
            for i, m in zip(have_steps, mres):
                mobs_by_case[i] = m
        except Exception as e:  # noqa: BLE001
            model_broken = repr(e)[:500]
    elif have_steps:
        model_broken = 'model driver not built'

    hist = {}
    outcome = {'agree': 0, 'skip': 0, 'diff': 0, 'oracle-only': 0}
    skip_reasons = {}
    seen = set()
    distinct_nt = 0
    diffs = []
    violations = []
    known_hits = {}
    compared_steps = 0
    for i, case in enumerate(cases):
        iobs, viol, nt, _ = work[i]
        h = case_hash(case)
        lab = check.classify(case)
        hist[lab] = hist.get(lab, 0) + 1
        if h not in seen:
            seen.add(h)
            if nt:
                distinct_nt += 1
        if viol:
            f = fmod.match(pid, case, viol)
            if f:
                known_hits.setdefault(f['id'], (f, case, viol))
            else:
                violations.append((case, viol))
        if i in mobs_by_case:
            r = check.compare(case, all_steps[i], iobs, mobs_by_case[i])
            if r[0] == 'agree':
                outcome['agree'] += 1
                compared_steps += r[1]
            elif r[0] == 'skip':
                outcome['skip'] += 1
                key = r[1].split(':')[0] + (':' + r[1].split(':', 1)[1][:40] if ':' in r[1] else '')
                skip_reasons[key] = skip_reasons.get(key, 0) + 1
            else:
                outcome['diff'] += 1
                # a disagreement caused by a listed finding is not a model problem
                if viol and fmod.match(pid, case, viol):
                    pass
                else:
                    diffs.append((case, r))
        else:
            outcome['oracle-only'] += 1

    # ----- decide
    exit_code = 0
    lines = []
    nrep = [0]

    def write_replay(obj):
        nrep[0] += 1
        p = os.path.join(REPLAY, f'{pid}-{nrep[0]}.json')
        with open(p, 'w') as f:
            json.dump(obj, f, indent=1, default=str)
        return p

    for fid, (f, case, viol) in sorted(known_hits.items()):
        lines.append(f'KNOWN-FINDING: property={pid} {f["id"]}: {f["what"]}')
    if violations:
        # report the smallest failing inputs first
        violations.sort(key=lambda cv: len(json.dumps(cv[0], default=str)))
        for case, viol in violations[:3]:
            p = write_replay({'property': pid, 'kind': 'oracle', 'case': case, 'detail': viol})
            lines.append(f'VIOLATION property={pid} replay={p}')
        exit_code = 1
    broken = []
    if not lean['ok']:
        broken.append({'what': 'proof obligation', 'failures': lean['failures']})
    if diffs:
        case, r = diffs[0]
        broken.append({'what': 'correspondence model/implementation', 'n': len(diffs), 'first_case': case,
                       'step': r[1], 'impl': r[2], 'model': r[3]})
    if model_broken:
        broken.append({'what': 'model driver', 'detail': model_broken})
    if broken and not violations:
        # the search (oracle over every generated case and the corpus) found no failing input
        p = write_replay({'property': pid, 'kind': 'broken-obligation', 'case': None, 'detail': broken})
        lines.append(f'VIOLATION property={pid} replay={p} no-failing-input-found')
        exit_code = 1
    total = len(cases)
    skip_share = outcome['skip'] / max(1, len(have_steps))
    if exit_code == 0 and skip_share > check.max_skip_share:
        print(f'INFRA: {outcome["skip"]}/{len(have_steps)} cases outside the model (limit {check.max_skip_share})')
        print(json.dumps(skip_reasons, indent=1))
        exit_code = 2

    samples = []
    for c in cases[n_corpus:n_corpus + 3] + cases[-2:]:
        samples.append(c)
    ev = {
        'property_id': pid, 'tier': tier, 'seed': int(seed), 'level': 'proof',
        'coverage': {
            'obligations': lean['obligations'], 'discharged': lean['discharged'],
            'checker_cmd': f'cd lean && lake build && lake env lean Wal/Props/{pid}.lean && lake env lean .lake/audit_{pid}.lean'
                           + (f' && lake env leanchecker Wal.Props.{pid}' if tier == 'thorough' else ''),
            'trusted_base': TRUSTED_BASE,
            'theorems': lean['theorems'], 'partial_theorems': lean['partial'],
            'lean_failures': lean['failures'],
            'evaluations': total, 'distinct_nontrivial': distinct_nt, 'rule': check.rule,
            'traces_validated_against_impl': outcome['agree'],
            'correspondence': outcome, 'compared_observations': compared_steps, 'skip_reasons': skip_reasons,
            'input_distribution': hist, 'corpus_cases': n_corpus,
            'known_findings_reproduced': sorted(known_hits.keys()),
            'samples': samples[:5],
            **({'theorem_coverage': dict(__import__('harness.session', fromlist=['x']).COVER_COUNTS,
                                         note='per evaluation request of the correspondence run, asked of the model before the evaluation: does the restricted '
                                              'evaluator of the global theorem complete on it (Bal.walEvalR for C17.toplevel_balanced, Opt.walEvalF for '
                                              'C08.optimize_preserves_restricted, Res.walEvalC for C07.resolved_run_eq_dynamic_run, Tid.walEvalT for C03.reval_position_neutral and C04.whenever_position_neutral / findG_position_neutral, Neu.walEvalN for C04.completed_evaluation_position_neutral)? If so the theorem speaks about exactly this evaluation of the model, '
                                              'and the correspondence compares the model with the implementation on it.')}
               if getattr(check, 'theorem_coverage', False) else {}),
        },
        'assumptions': list(check.assumptions),
        'wall_s': round(time.time() - t0, 2),
        'violations': len(violations) + (1 if broken and not violations else 0),
    }
    with open(os.path.join(EVID, f'{pid}.json'), 'w') as f:
        json.dump(ev, f, indent=1, default=str)
    for ln in lines:
        print(ln)
    print(f'[{pid}] tier={tier} seed={seed} cases={total} agree={outcome["agree"]} skip={outcome["skip"]} '
          f'diff={outcome["diff"]} oracle-violations={len(violations)} known={len(known_hits)} '
          f'nontrivial={distinct_nt} wall={time.time() - t0:.1f}s exit={exit_code}')
    if diffs and exit_code:
        case, r = diffs[0]
        print('first disagreement:', json.dumps(case, default=str)[:1500])
        print('  step', r[1], '\n  impl ', str(r[2])[:800], '\n  model', str(r[3])[:800])
    if violations:
        print('first violation:', json.dumps(violations[0][1], default=str)[:2000])
    return exit_code
