"""C12 — multiple traces: isolated, addressable by id, loaded set stays consistent."""
import random

from . import framework, gen_trace

TIDS = ['t0', 'tB', 'zz']
LENS = {'t0': 4, 'tB': 6, 'zz': 2}
SEEDS = {'t0': 11, 'tB': 22, 'zz': 33}
_cache = {}


# the same names and identifier codes in every trace, but `zz` declares d with another width: what is known about a
# signal of one trace must never be answered from another trace's tables
SIGSETS = {'zz': [('clk', 1), ('a', 1), ('d', 6), ('cnt', 8)]}


def trace(tid):
    if tid not in _cache:
        vf, den = gen_trace.simple_vcd(random.Random(SEEDS[tid]), LENS[tid], sigs=SIGSETS.get(tid))
        _cache[tid] = (gen_trace.render(vf), den)
    return _cache[tid]


ALPHABET = ([['load', t] for t in TIDS] + [['unload', t] for t in TIDS] + [['fail', 'missing', 'q1'], ['fail', 'ext', 'q2'], ['fail', 'ext', 't0']]
            + [['step', 1], ['step', -1], ['step', 3], ['reval', 1], ['reval', 3], ['reval', -1]] + [['stepid', t, 1] for t in TIDS] + [['stepid', 't0', -1], ['stepid', 'tB', 4]]
            + [['setall', 0], ['setall', 2], ['setall', 4], ['setall', 6]]
            + [['stepexpr', ['t0', 'tB'], 3], ['stepexpr', ['tB', 't0'], 2]]
            + [['stepids', ['t0', 'tB'], 2], ['stepids', ['tB', 't0'], 3], ['stepids', ['zz', 'tB'], 1], ['stepids', ['t0', 'zz', 'tB'], -1]])


def _v(x):
    return ('I', x) if isinstance(x, int) else ('S', x)


class C12(framework.PropertyCheck):
    pid = 'C12'
    quick_cases = 500
    thorough_cases = 6000
    rule = ('op sequences (len<=6 random; thorough: all sequences of length<=3 over a 20-op alphabet plus random) of load / unload / '
            'failing load (missing file, unsupported extension, duplicate id) / step / step "tid" / step "tid1" "tid2".. n / relative evaluation over three generated traces with the '
            'same signal names and identifier codes, different lengths and one differing signal width, probed after every op against a dictionary-of-traces reference; '
            'non-trivial = at least two traces loaded at some point and at least one failing load or unload')

    def cases(self, rng, tier, n):
        for _ in range(n):
            L = rng.randint(1, 6)
            ops = []
            # bias towards having traces loaded
            ops.append(['load', rng.choice(TIDS)])
            for _k in range(L):
                ops.append(list(rng.choice(ALPHABET)))
            if rng.random() < 0.15:
                # two traces at different positions, then one request for both whose amount is computed from a position
                ops = [['load', 't0'], ['load', 'tB'], ['stepid', 'tB', rng.choice([1, 2])], ['stepid', 't0', rng.choice([0, 1])],
                       list(rng.choice([['stepexpr', ['t0', 'tB'], 3], ['stepexpr', ['tB', 't0'], 2], ['stepexpr', ['t0', 'tB'], 2]]))] + ops[1:3]
            if rng.random() < 0.15:
                # a request that names a trace that is not loaded is refused (it ends the history: the language has no handler)
                ops.append(['stepmissing', rng.choice([['nosuch'], ['t0', 'nosuch'], ['nosuch', 'tB']]), rng.choice([1, -1])])
            yield {'ops': ops}
        if tier == 'thorough':
            import itertools
            for L in (1, 2, 3):
                for seq in itertools.product(ALPHABET, repeat=L):
                    yield {'ops': [list(o) for o in seq]}

    # ---- reference: dictionary of traces
    def _simulate(self, ops):
        """-> list of (step, expectation) where expectation describes the observation the property prescribes"""
        loaded = {}        # tid -> index   (insertion ordered)
        plan = []
        for op in ops:
            k = op[0]
            if k == 'load':
                tid = op[1]
                if tid in loaded:
                    plan.append((('loadvcd', tid, trace(tid)[0]), ('fail',)))
                else:
                    plan.append((('loadvcd', tid, trace(tid)[0]), ('ok',)))
                    loaded[tid] = 0
            elif k == 'fail':
                if op[1] == 'missing':
                    plan.append((('loadfail', op[2], 'missing'), ('fail',)))
                else:
                    # unsupported extension: the tool prints a message; whether it raises is not prescribed
                    plan.append((('loadfail', op[2], 'ext'), ('any',)))
            elif k == 'unload':
                plan.append((('unload', op[1]), ('ok',)))
                loaded.pop(op[1], None)
            elif k == 'step':
                if not loaded:
                    continue
                ok = True
                for t in loaded:
                    ni = loaded[t] + op[1]
                    if 0 <= ni < LENS[t]:
                        loaded[t] = ni
                    else:
                        ok = False
                plan.append((('eval', 'eorg', f'(step {op[1]})'), ('val', ('B', ok))))
            elif k == 'setall':
                # every loaded trace is asked to go to index i, each on its own; the result says whether all of them could
                if not loaded:
                    continue
                ok = True
                for t in loaded:
                    if 0 <= op[1] < LENS[t]:
                        loaded[t] = op[1]
                    else:
                        ok = False
                plan.append((('eval', 'eorg', f'(set-index/all {op[1]})'), ('val', ('B', ok))))
            elif k == 'reval':
                if not loaded:
                    continue
                inr = all(0 <= loaded[t] + op[1] < LENS[t] for t in loaded)
                q = '(reval (list ' + ' '.join(f'{t}^INDEX' for t in loaded) + f') {op[1]})'
                want = ('L', True, tuple(('I', loaded[t] + op[1]) for t in loaded)) if inr else ('B', False)
                plan.append((('eval', 'eorg', q), ('val', want)))
            elif k == 'stepid':
                t = op[1]
                if t not in loaded:
                    continue
                ni = loaded[t] + op[2]
                ok = 0 <= ni < LENS[t]
                if ok:
                    loaded[t] = ni
                plan.append((('eval', 'eorg', f'(step "{t}" {op[2]})'), ('val', ('B', ok))))
            elif k == 'stepmissing':
                if not loaded or any(t != 'nosuch' and t not in loaded for t in op[1]):
                    continue
                plan.append((('eval', 'eorg', '(step ' + ' '.join(f'"{t}"' for t in op[1]) + f' {op[2]})'), ('fail',)))
                break
            elif k == 'stepexpr':
                # the amount is computed once, from the position of the first-named trace before anything moves
                if any(t not in loaded for t in op[1]):
                    continue
                a0 = op[2] - loaded[op[1][0]]
                ok = True
                for t in op[1]:
                    ni = loaded[t] + a0
                    if 0 <= ni < LENS[t]:
                        loaded[t] = ni
                    else:
                        ok = False
                plan.append((('eval', 'eorg', '(step ' + ' '.join(f'"{t}"' for t in op[1]) + f' (- {op[2]} {op[1][0]}^INDEX))'), ('val', ('B', ok))))
            elif k == 'stepids':
                if any(t not in loaded for t in op[1]):
                    continue
                ok = True
                for t in op[1]:          # every listed trace is asked on its own; one that cannot move stays, the others move
                    ni = loaded[t] + op[2]
                    if 0 <= ni < LENS[t]:
                        loaded[t] = ni
                    else:
                        ok = False
                plan.append((('eval', 'eorg', '(step ' + ' '.join(f'"{t}"' for t in op[1]) + f' {op[2]})'), ('val', ('B', ok))))
            # probes
            plan.append((('eval', 'eorg', '(loaded-traces)'), ('val', ('L', False, tuple(('S', t) for t in loaded)))))
            if loaded:
                parts, want = [], []
                for t, i in loaded.items():
                    den = trace(t)[1]
                    parts += [f'{t}^INDEX', f'{t}^TS', f'{t}^MAX-INDEX', f'{t}^top.cnt', f'{t}^top.d', f'(signal-width "{t}^top.cnt")',
                              f'(signal? "{t}^top.d")', f'(signal? "{t}^nosuch")', f'(signal-width "{t}^top.d")']
                    want += [('I', i), ('I', den['timestamps'][i]), ('I', LENS[t] - 1), _v(den['values']['top.cnt'][i]),
                             _v(den['values']['top.d'][i]), ('I', 8), ('B', True), ('B', False), ('I', den['widths']['top.d'])]
                plan.append((('eval', 'eorg', '(list ' + ' '.join(parts) + ')'), ('val', ('L', True, tuple(want)))))
                if len(loaded) == 1:
                    (t, i), = loaded.items()
                    den = trace(t)[1]
                    plan.append((('eval', 'eorg', '(list INDEX TS MAX-INDEX top.cnt (signal-width "top.d") (in-scope "top" ~cnt) SCOPES SIGNALS)'),
                                 ('val', ('L', True, (('I', i), ('I', den['timestamps'][i]), ('I', LENS[t] - 1),
                                                      _v(den['values']['top.cnt'][i]), ('I', den['widths']['top.d']), _v(den['values']['top.cnt'][i]),
                                                      ('L', False, (('S', 'top'),)),
                                                      ('L', False, tuple(('S', s) for s in den['signals'])))))))
                else:
                    t = list(loaded)[-1]
                    i = loaded[t]
                    den = trace(t)[1]
                    plan.append((('eval', 'eorg', f'(in-scope "{t}^top" (list ~cnt ~d))'),
                                 ('val', ('L', True, (_v(den['values']['top.cnt'][i]), _v(den['values']['top.d'][i]))))))
        return plan

    def steps(self, case):
        return [p[0] for p in self._simulate(case['ops'])]

    def oracle(self, case, iobs):
        plan = self._simulate(case['ops'])
        for k, (step, exp) in enumerate(plan):
            if k >= len(iobs):
                return {'what': 'evaluation stopped early (an operation raised that the property says works)',
                        'at': plan[k - 1][0][:2] + (plan[k - 1][0][2][:80],) if k else None, 'obs': iobs[-1] if iobs else None}
            o = iobs[k]
            if exp[0] == 'ok' and o[0] != 'ok':
                return {'what': 'operation failed', 'step': step[:2], 'obs': o}
            if exp[0] == 'fail' and o[0] != 'err':
                return {'what': 'a request that must be refused (failing load, step on a trace that is not loaded) did not raise', 'step': step[:3] if step[0] == 'eval' else step[:2], 'obs': o}
            if exp[0] == 'val':
                if o[0] != 'ok' or o[1] != exp[1]:
                    return {'what': 'observation differs from the dictionary-of-traces reference', 'k': k, 'query': step[2][:300],
                            'got': o, 'want': exp[1], 'ops': case['ops']}
        return None

    def nontrivial(self, case, iobs):
        n, mx, fail = 0, 0, False
        loaded = set()
        for op in case['ops']:
            if op[0] == 'load':
                if op[1] in loaded:
                    fail = True
                loaded.add(op[1])
            elif op[0] == 'unload':
                fail = fail or op[1] in loaded
                loaded.discard(op[1])
            elif op[0] == 'fail':
                fail = True
            mx = max(mx, len(loaded))
        return mx >= 2 and fail

    def classify(self, case):
        return f'len{len(case["ops"])}'


CHECK = C12()
