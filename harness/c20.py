"""C20 — WAWK transpiles with AWK meaning; wawk -o output is the executed program."""
import contextlib
import io
import os
import random

from . import framework, gen_trace, gen_expr, impl, wire

N = 6


class G:
    """generates WAWK source together with a reference AST: expressions are nested tuples
    ('n', int) ('v', name) ('sig', name) ('idx',) ('bin', op, a, b) ('not', a) ('par', e) ('arr', name, key)"""

    def __init__(self, rng):
        self.r = rng

    def atom(self, vars_):
        r = self.r.random()
        if r < 0.35:
            return ('n', self.r.randint(0, 9))
        if r < 0.6 and vars_:
            return ('v', self.r.choice(vars_))
        if r < 0.8:
            return ('sig', self.r.choice(['top.cnt', 'top.clk', 'top.d_valid']))
        return ('idx',)

    def operand(self, vars_):
        # how arithmetic and comparison operators bind relative to each other is not part of the property:
        # comparison operands are atoms or parenthesised
        a = self.arith(1, vars_)
        return ('par', a) if a[0] == 'bin' else a

    def arith(self, d, vars_, paren=0.3):
        if d <= 0 or self.r.random() < 0.3:
            return self.atom(vars_)
        op = self.r.choice(['+', '-', '*', '+', '-', '*', '/'] if False else ['+', '-', '*', '+', '-', '*'])
        a, b = self.arith(d - 1, vars_, paren), self.arith(d - 1, vars_, paren)
        if self.r.random() < paren and a[0] == 'bin':
            a = ('par', a)
        if self.r.random() < paren and b[0] == 'bin':
            b = ('par', b)
        return ('bin', op, a, b)

    def cond(self, d, vars_):
        r = self.r.random()
        if d <= 0 or r < 0.35:
            op = self.r.choice(['==', '!=', '>', '<', '>=', '<='])
            return ('par', ('bin', op, self.operand(vars_), self.operand(vars_)))
        if r < 0.5:
            return ('sig', self.r.choice(['top.clk', 'top.d_valid', 'top.d_ready']))
        if r < 0.6:
            # how the unary ! binds against && and || is not part of the property: written parenthesised
            return ('par', ('not', ('sig', self.r.choice(['top.clk', 'top.d_valid']))))
        op = self.r.choice(['&&', '||'])
        a, b = self.cond(d - 1, vars_), self.cond(d - 1, vars_)
        if self.r.random() < 0.3 and a[0] == 'bin':
            a = ('par', a)
        if self.r.random() < 0.3 and b[0] == 'bin':
            b = ('par', b)
        return ('bin', op, a, b)

    def stmt(self, d, vars_):
        r = self.r.random()
        v = self.r.choice(['x', 'y', 'z'])
        if r < 0.3:
            return ('assign', v, self.arith(2, vars_))
        if r < 0.45:
            return ('opassign', v, self.r.choice(['+', '-', '*']), self.arith(1, vars_))
        if r < 0.7:
            return ('print', self.r.choice(['s ', 'tab\\there ', 'q\\"uote ', 'n ', '', 'say \\"hi\\"', ' \\"', 'dir \\"C:\\\\tmp\\\\\\" n ', 'b\\\\ ']), self.arith(1, vars_ + ['x']))
        if r < 0.82 and d > 0:
            return ('if', self.cond(1, vars_ + ['x']), [self.stmt(d - 1, vars_)], [self.stmt(d - 1, vars_)] if self.r.random() < 0.5 else None)
        if r < 0.9:
            return ('aset', 'arr', self.key(), self.arith(1, vars_ + ['x']))
        if r < 0.95 and d > 0:
            items = self.r.choice([[('n', 1), ('n', 2), ('v', 'x')], [('n', 0), ('n', 1), ('n', 2)], [('n', 0)], [('s', ''), ('s', 'q')],
                                   [('v', 'x'), ('n', 0)], [('n', 0), ('v', 'y')]])
            return ('forin', 'e', items, [('print', 'e ', ('v', 'e'))])
        return ('print', 'a ', ('arr', 'arr', self.key(read=True)))

    def key(self, read=False):
        """an array subscript: a string, a variable, an integer literal, or several literal subscripts (a[1, 2] and a[2, 1] and a[3]
        are three different elements)"""
        r = self.r.random()
        if r < 0.6:
            return self.r.choice([('s', 'k1'), ('s', 'k2'), ('v', 'x')])
        if r < 0.75:
            # name[3] in an expression is a bit slice, not an element: the element set by a[3] = v is read as a["3"]
            return ('s', str(self.r.randint(1, 4))) if read else ('n', self.r.randint(1, 4))
        return ('multi', self.r.choice([[('n', 1), ('n', 2)], [('n', 2), ('n', 1)], [('n', 1), ('n', 1), ('n', 1)], [('n', 3), ('n', 0)],
                                        [('n', 1), ('s', 'k')], [('s', 'k'), ('n', 1)], [('n', 0), ('n', 3)]]))


PREC = {'||': 1, '&&': 2, '==': 3, '!=': 3, '>': 3, '<': 3, '>=': 3, '<=': 3, '+': 4, '-': 4, '*': 5, '/': 5}


def src_expr(e):
    k = e[0]
    if k == 'n':
        return str(e[1])
    if k in ('v', 'sig'):
        return e[1]
    if k == 's':
        return '"' + e[1] + '"'
    if k == 'idx':
        return 'INDEX'
    if k == 'par':
        return '(' + src_expr(e[1]) + ')'
    if k == 'not':
        return '!' + src_expr(e[1])
    if k == 'multi':
        return ', '.join(src_expr(x) for x in e[1])
    if k == 'arr':
        return f'{e[1]}[{src_expr(e[2])}]'
    # the tree is the reference reading: parentheses are written exactly where the stated grouping
    # (left to right; * / over + -; && over ||) would otherwise read the text differently
    p = PREC[e[1]]
    a, b = src_expr(e[2]), src_expr(e[3])
    if e[2][0] == 'bin' and PREC[e[2][1]] < p:
        a = '(' + a + ')'
    if e[3][0] == 'bin' and PREC[e[3][1]] <= p:
        b = '(' + b + ')'
    return f'{a} {e[1]} {b}'


def src_stmt(s, ind='  '):
    k = s[0]
    if k == 'assign':
        return f'{ind}{s[1]} = {src_expr(s[2])};'
    if k == 'opassign':
        return f'{ind}{s[1]} {s[2]}= {src_expr(s[3])};'
    if k == 'print':
        return f'{ind}print("{s[1]}", {src_expr(s[2])});'
    if k == 'if':
        t = f'{ind}if ({src_expr(s[1])}) {{\n' + '\n'.join(src_stmt(x, ind + '  ') for x in s[2]) + f'\n{ind}}}'
        if s[3] is not None:
            t += ' else {\n' + '\n'.join(src_stmt(x, ind + '  ') for x in s[3]) + f'\n{ind}}}'
        return t
    if k == 'aset':
        return f'{ind}{s[1]}[{src_expr(s[2])}] = {src_expr(s[3])};'
    if k == 'forin':
        return f'{ind}for ({s[1]} in [{", ".join(src_expr(x) for x in s[2])}]) {{\n' + '\n'.join(src_stmt(x, ind + '  ') for x in s[3]) + f'\n{ind}}}'
    raise ValueError(k)


# ------------------------------------------------------------------ AWK reference semantics

class Ref:
    def __init__(self, den):
        self.den = den
        self.vars = {}
        self.arr = {}
        self.out = []
        self.i = 0

    def ev(self, e):
        k = e[0]
        if k == 'n':
            return e[1]
        if k == 'v':
            return self.vars.get(e[1], 0)
        if k == 's':
            return e[1]
        if k == 'sig':
            return self.den['values'][e[1]][self.i]
        if k == 'idx':
            return self.i
        if k == 'par':
            return self.ev(e[1])
        if k == 'not':
            return not self.ev(e[1])
        if k == 'multi':
            # literal subscripts: the element is named by their texts, one after the other
            return ''.join(str(self.ev(x)) for x in e[1])
        if k == 'arr':
            return self.arr.get(str(self.ev(e[2])), 0)
        op, a, b = e[1], e[2], e[3]
        if op == '&&':
            return bool(self.ev(a)) and bool(self.ev(b))
        if op == '||':
            return bool(self.ev(a)) or bool(self.ev(b))
        x, y = self.ev(a), self.ev(b)
        return {'+': lambda: x + y, '-': lambda: x - y, '*': lambda: x * y, '==': lambda: x == y, '!=': lambda: x != y,
                '>': lambda: x > y, '<': lambda: x < y, '>=': lambda: x >= y, '<=': lambda: x <= y}[op]()

    def run(self, s):
        k = s[0]
        if k == 'assign':
            self.vars[s[1]] = self.ev(s[2])
        elif k == 'opassign':
            x, y = self.vars.get(s[1], 0), self.ev(s[3])
            self.vars[s[1]] = x + y if s[2] == '+' else x - y if s[2] == '-' else x * y
        elif k == 'print':
            v = self.ev(s[2])
            txt = _unescape(s[1])
            self.out.append(txt + _show(v) + '\n')
        elif k == 'if':
            if self.ev(s[1]):
                for x in s[2]:
                    self.run(x)
            elif s[3] is not None:
                for x in s[3]:
                    self.run(x)
        elif k == 'aset':
            self.arr[str(self.ev(s[2]))] = self.ev(s[3])
        elif k == 'forin':
            for x in s[2]:
                self.vars[s[1] + '#loop'] = self.ev(x)
                saved = self.vars.get(s[1])
                self.vars[s[1]] = self.ev(x)
                for b in s[3]:
                    self.run(b)
                if saved is None:
                    self.vars.pop(s[1], None)
                else:
                    self.vars[s[1]] = saved


def _unescape(t):
    """the characters a WAWK string literal with the escapes \\t \\" \\\\ denotes"""
    out, i = [], 0
    while i < len(t):
        if t[i] == '\\' and i + 1 < len(t):
            out.append({'t': '\t', '"': '"', '\\': '\\', 'n': '\n'}.get(t[i + 1], t[i + 1]))
            i += 2
        else:
            out.append(t[i])
            i += 1
    return ''.join(out)


def _show(v):
    if isinstance(v, bool):
        return 'true' if v else 'false'
    return str(v)


def flatten_chain(e):
    """is `e` an unparenthesised chain of three or more operands mixing binary operators?"""
    if e[0] != 'bin':
        return False
    return (e[2][0] == 'bin') or (e[3][0] == 'bin')


def has_chain(prog):
    def in_expr(e):
        if e[0] == 'bin':
            return flatten_chain(e) or in_expr(e[2]) or in_expr(e[3])
        if e[0] in ('par', 'not'):
            return in_expr(e[1])
        if e[0] == 'arr':
            return in_expr(e[2])
        return False

    def in_stmt(s):
        k = s[0]
        if k in ('assign',):
            return in_expr(s[2])
        if k == 'opassign':
            return in_expr(s[3])
        if k == 'print':
            return in_expr(s[2])
        if k == 'if':
            return in_expr(s[1]) or any(in_stmt(x) for x in s[2]) or (s[3] is not None and any(in_stmt(x) for x in s[3]))
        if k == 'aset':
            return in_expr(s[2]) or in_expr(s[3])
        if k == 'forin':
            return any(in_stmt(x) for x in s[3])
        return False
    return any(any(in_expr(c) for c in st['conds']) or any(in_stmt(a) for a in st['action']) for st in prog['stmts']) or \
        any(in_stmt(a) for a in prog['begin'] + prog['end'])


# ------------------------------------------------------------------ operator expressions on tokens (grouping)

LVL = {'||': 1, '&&': 2, '==': 3, '!=': 3, '>': 3, '<': 3, '>=': 3, '<=': 3, '+': 4, '-': 4, '*': 5, '/': 5}
OPNAME = {'||': 'OR', '&&': 'AND', '==': 'EQ', '!=': 'NEQ', '>': 'LARGER', '<': 'SMALLER', '>=': 'LARGER_EQUAL', '<=': 'SMALLER_EQUAL',
          '+': 'ADD', '-': 'SUB', '*': 'MUL', '/': 'DIV'}


def gen_tree(r, d):
    """('a', token) | ('neg', t) | ('bin', op, t, t)"""
    x = r.random()
    if d <= 0 or x < 0.25:
        k = r.random()
        if k < 0.4:
            return ('a', ['i', r.randint(0, 99)])
        if k < 0.9:
            return ('a', ['y', r.choice(['x', 'y', 'top.cnt', 'INDEX', 'a_b', 'sig.q'])])
        return ('a', ['s', r.choice(['k', 'two words', ''])])
    if x < 0.33:
        return ('neg', gen_tree(r, d - 1))
    return ('bin', r.choice(list(LVL)), gen_tree(r, d - 1), gen_tree(r, d - 1))


def tree_tokens(t, lvl, r=None):
    """the text of the tree with exactly the parentheses the stated grouping needs (plus, with r, a few redundant ones)"""
    if t[0] == 'a':
        toks = [t[1]]
        need = False
    elif t[0] == 'neg':
        toks = [['p', '!']] + tree_tokens(t[1], 6, r)
        need = False
    else:
        q = LVL[t[1]]
        toks = tree_tokens(t[2], 4 if q == 3 else q, r) + [['p', t[1]]] + tree_tokens(t[3], q + 1, r)
        need = q < lvl
    if need or (r is not None and r.random() < 0.12):
        toks = [['p', '(']] + toks + [['p', ')']]
    return toks


def tree_form(t):
    from wal.ast_defs import Operator, Symbol
    if t[0] == 'a':
        return t[1][1] if t[1][0] in ('i', 's') else Symbol(t[1][1])
    if t[0] == 'neg':
        return [Operator.NOT, tree_form(t[1])]
    return [Operator[OPNAME[t[1]]], tree_form(t[2]), tree_form(t[3])]


BAD_TOKENS = [
    [['y', 'a'], ['p', '<'], ['y', 'b'], ['p', '<'], ['y', 'c']], [['y', 'a'], ['p', '+']], [['p', '('], ['y', 'a'], ['p', '+'], ['y', 'b']],
    [['y', 'a'], ['p', '+'], ['p', '*'], ['y', 'b']], [['y', 'a'], ['p', '+'], ['y', 'b'], ['p', ')']], [['p', '!']],
    [['y', 'a'], ['p', '||'], ['p', '&&'], ['y', 'b']], [['y', 'a'], ['p', '=='], ['y', 'b'], ['p', '!='], ['i', 1]], [['p', '('], ['p', ')']],
]


_TS = None


class C20(framework.PropertyCheck):
    pid = 'C20'
    quick_cases = 100
    thorough_cases = 2000
    rule = ('generated WAWK programs (BEGIN / END blocks, 1-3 statements with 1-3 conditions each; integer arithmetic, parenthesised comparisons, '
            'logical operators, assignment and compound assignment, if/else, for-in over a list, array set/get, print with string escapes) over a '
            'generated trace (6 indices): the program emitted by parse_wawk + AST.emit is evaluated by Wal and its stdout compared with a direct '
            'AWK-style reference evaluation (BEGIN once, per index the statements in source order whose conditions all hold, END once); the text '
            'written as by wawk -o (wal_str per form) is read back with the WAL reader and compared with the emitted forms; non-trivial = a '
            'statement whose conditions hold at some but not all indices, or an operator chain; every fourth case is a batch of 8 operator expressions '
            '(all twelve binary operators, !, depth <= 4, atoms: integers, symbols, strings) written with exactly the necessary parentheses (half of '
            'them with redundant ones added): parse_wawk against the generating tree and against the Lean token-level parser; a few ill-formed '
            'operator texts (chained comparison, dangling operator, unbalanced parenthesis) must be rejected by both')

    def cases(self, rng, tier, n):
        for i in range(n):
            g = G(random.Random(rng.randrange(1 << 30)))
            if i % 4 == 1:
                # operator expressions alone, several per program: the tree is the stated reading of its own text
                trees = [gen_tree(g.r, g.r.randint(1, 4)) for _ in range(8)]
                yield {'kind': 'expr', 'trees': _tolist(trees), 'seed': rng.randrange(1 << 30)}
                continue
            if i % 16 == 3:
                yield {'kind': 'badexpr', 'toks': g.r.choice(BAD_TOKENS)}
                continue
            vars_ = ['x', 'y']
            prog = {'begin': [('assign', 'x', ('n', g.r.randint(0, 3))), ('assign', 'y', ('n', 1)), ('aset', 'arr', ('s', 'k0'), ('n', 0))] + [g.stmt(1, vars_) for _ in range(g.r.randint(0, 1))],
                    'end': [('print', 'end ', ('bin', '+', ('v', 'x'), ('v', 'y')))] + [g.stmt(0, vars_) for _ in range(g.r.randint(0, 1))],
                    'stmts': [{'conds': [g.cond(g.r.randint(0, 2), vars_) for _ in range(g.r.randint(1, 3))],
                               'action': [g.stmt(1, vars_) for _ in range(g.r.randint(1, 3))]} for _ in range(g.r.randint(1, 3))]}
            if g.r.random() < 0.3:
                # a variable named like a binder of the library macros the emitted program uses (array reads expand to geta/default)
                global _TS
                if _TS is None:
                    from .c15 import template_symbols
                    import re
                    _TS = sorted(t for t in set(template_symbols()) - {'args', 'x', 'y', 'z', 'e'} if re.fullmatch(r'[A-Za-z_][A-Za-z0-9_]*', t)) or ['tmp']
                h = g.r.choice(_TS)
                prog['begin'].append(('assign', h, ('n', g.r.randint(1, 3))))
                prog['end'].insert(0, ('aset', 'arr', ('v', h), ('bin', '+', ('arr', 'arr', ('v', h)), ('n', 1))))
                prog['end'].insert(1, ('print', 'h ', ('arr', 'arr', ('v', h))))
            if len(prog['stmts']) >= 2 and g.r.random() < 0.4:
                # statements guarded by the same conditions still run in source order, each in its own turn
                prog['stmts'][-1]['conds'] = list(prog['stmts'][0]['conds'])
                r5 = g.r.random()
                if r5 < 0.4:
                    # the shared condition reads a variable that the first action changes: the second statement tests it afresh
                    c = ('par', ('bin', '<', ('v', 'x'), ('n', g.r.randint(3, 6))))
                    lay = g.r.randrange(4)
                    if lay < 2:
                        prog['stmts'][0]['conds'] = [('sig', 'top.clk'), c] if lay == 0 else [c]
                        prog['stmts'][-1]['conds'] = list(prog['stmts'][0]['conds'])
                    else:
                        # the changing condition comes first in every statement, each with further conditions of its own
                        for st in prog['stmts']:
                            st['conds'] = [c] + [g.cond(0, vars_) if lay == 3 else ('sig', g.r.choice(['top.clk', 'top.d_valid']))
                                                 for _ in range(g.r.randint(1, 2))]
                    prog['stmts'][0]['action'].insert(0, ('opassign', 'x', '+', ('n', 2)))
                    prog['stmts'][-1]['action'].insert(0, ('print', 'second ', ('v', 'x')))
                elif r5 < 0.7:
                    c = ('sig', g.r.choice(['top.clk', 'top.d_valid']))
                    prog['stmts'][0]['conds'] = [c]
                    prog['stmts'][-1]['conds'] = [c]
                    for k, st in enumerate(prog['stmts']):
                        st['action'].insert(0, ('print', f's{k} ', ('idx',)))
                    if len(prog['stmts']) == 3:
                        prog['stmts'][1]['conds'] = [('par', ('bin', '>=', ('idx',), ('n', g.r.randint(0, 2))))]
            if g.r.random() < 0.2:
                # elements named by several literal subscripts are kept apart from their permutations and from the sum
                ks = g.r.sample([[('n', 1), ('n', 2)], [('n', 2), ('n', 1)], [('n', 3)], [('n', 0), ('n', 3)], [('n', 1), ('n', 1), ('n', 1)]], 3)
                for j, kk in enumerate(ks[:2]):
                    prog['begin'].append(('aset', 'arr', ('multi', kk) if len(kk) > 1 else kk[0], ('n', 5 + j)))
                for kk in ks:
                    prog['end'].append(('print', 'm ', ('arr', 'arr', ('multi', kk) if len(kk) > 1 else ('s', str(kk[0][1])))))
            if g.r.random() < 0.05:
                prog['stmts'] = []
            case = {'prog': _tolist(prog), 'seed': rng.randrange(1 << 30)}
            if i % (15 if tier == 'quick' else 40) == 7:
                case['cli'] = True
                # a statement far longer than a text line, with blanks inside its string
                words = ' '.join(g.r.choice(['alpha', 'beta', 'gamma', 'delta', 'x', 'yz']) for _ in range(g.r.randint(25, 40)))
                case['prog']['end'].append(_tolist(('print', words + ' ', ('n', 1))))
            yield case

    def trace(self, case):
        return gen_trace.simple_vcd(random.Random(case['seed']), N, sigs=gen_expr.SIGS, xz_names=())

    def expr_tokens(self, case):
        r = random.Random(case['seed'])
        return [tree_tokens(_totree(t), 1, r if k % 2 else None) for k, t in enumerate(case['trees'])]

    def steps(self, case):
        if case.get('kind') == 'expr':
            return [('wawkparse', self.expr_tokens(case))]
        if case.get('kind') == 'badexpr':
            return [('wawkparse', [case['toks']])]
        # correspondence: the model's emit against AST.emit, then the emitted forms evaluated by the model's
        # evaluator against Wal.eval (value, printed text and final state of every form)
        from . import session
        src = self.source(_totuple(case['prog']))
        try:
            forms, _ = session.wawk_emit(src)
        except BaseException:  # noqa: BLE001
            return None
        vf, _ = self.trace(case)
        return [('wawkemit', src), ('loadvcd', 'WAWK_TRACE', gen_trace.render(vf))] + [('evalast', 'eorg', f) for f in forms] + [('state',)]

    def source(self, prog):
        lines = ['BEGIN: {\n' + '\n'.join(src_stmt(s) for s in prog['begin']) + '\n}']
        for st in prog['stmts']:
            lines.append(', '.join(src_expr(c) for c in st['conds']) + ': {\n' + '\n'.join(src_stmt(s) for s in st['action']) + '\n}')
        lines.append('END: {\n' + '\n'.join(src_stmt(s) for s in prog['end']) + '\n}')
        return '\n'.join(lines) + '\n'

    def oracle(self, case, iobs):
        from . import session
        if case.get('kind') == 'expr':
            toks = self.expr_tokens(case)
            want = ('ok', wire.canon([tree_form(_totree(t)) for t in case['trees']]))
            got = iobs[0] if iobs else None
            if got is None or got[0] != 'ok':
                return {'what': 'operator expressions of the fragment were rejected', 'texts': [session.tok_text(t) for t in toks], 'got': got}
            if _strip(got[1]) != _strip(want[1]):
                bad = [k for k, (a, b) in enumerate(zip(_strip(got[1])[1], _strip(want[1])[1])) if a != b]
                k = bad[0] if bad else 0
                return {'what': 'an operator expression is not grouped left to right with * / over + - and && over ||', 'text': session.tok_text(toks[k]),
                        'got': wire.show(got[1][2][k]) if hasattr(wire, 'show') else repr(got[1][2][k]),
                        'want': repr(want[1][2][k])}
            return None
        if case.get('kind') == 'badexpr':
            return None
        from wal.util import wal_str
        from wal.reader import read_wal_sexprs
        prog = _totuple(case['prog'])
        src = self.source(prog)
        vf, den = self.trace(case)
        if case.get('cli'):
            r = self.cli(src, gen_trace.render(vf))
            if r is not None:
                return r
        wd = impl.workdir()
        tp = os.path.join(wd, 'w.vcd')
        with open(tp, 'w') as f:
            f.write(gen_trace.render(vf))
        try:
            exprs, symbols = session.wawk_emit(src)
        except BaseException as e:  # noqa: BLE001
            os.unlink(tp)
            return {'what': 'WAWK program of the statement/expression fragment was rejected', 'source': src, 'error': repr(e)[:300]}
        # (1) -o text is the executed program
        text = ''.join(wal_str(s) + '\n\n' for s in exprs)
        try:
            back = read_wal_sexprs(text)
            if wire.canon(list(back)) != wire.canon(_aslist(exprs)):
                a, b = wire.canon(list(back)), wire.canon(_aslist(exprs))
                if _strip(a) != _strip(b):
                    os.unlink(tp)
                    return {'what': 'the WAL text written by wawk -o does not read back as the program that is executed', 'source': src,
                            'text': text[:600]}
        except BaseException as e:  # noqa: BLE001
            os.unlink(tp)
            return {'what': 'the WAL text written by wawk -o is not readable', 'source': src, 'text': text[:600], 'error': repr(e)[:200]}
        # (2) execution vs AWK reference
        w = impl.fresh()
        buf = io.StringIO()
        err = None
        try:
            with impl.time_limit(20), contextlib.redirect_stdout(buf):
                w.load(tp, 'WAWK_TRACE', keep_signals=symbols)
                for ex in exprs:
                    w.eval(ex)
        except BaseException as e:  # noqa: BLE001
            err = repr(e)[:200]
        finally:
            os.unlink(tp)
        r = Ref(den)
        try:
            for s in prog['begin']:
                r.run(s)
            for i in range(N):
                r.i = i
                for st in prog['stmts']:
                    if all(r.ev(c) for c in st['conds']):
                        for s in st['action']:
                            r.run(s)
            r.i = 0
            for s in prog['end']:
                r.run(s)
        except ZeroDivisionError:
            return None
        want = ''.join(r.out)
        if err is not None:
            return {'what': 'the emitted program raised', 'source': src, 'error': err, 'chain': has_chain(prog)}
        if buf.getvalue() != want:
            return {'what': 'output of the emitted program differs from the AWK-style reference evaluation', 'source': src,
                    'got': buf.getvalue()[:500], 'want': want[:500], 'chain': has_chain(prog)}
        return None

    def cli(self, src, vcd):
        """the command line tool itself: `wawk prog trace` against `wawk prog trace -o out.wal` followed by `wal out.wal -l trace`"""
        import subprocess
        import sys
        wd = impl.workdir()
        pp, tp, op = (os.path.join(wd, n) for n in ('p.wawk', 't.vcd', 'o.wal'))
        with open(pp, 'w') as f:
            f.write(src)
        with open(tp, 'w') as f:
            f.write(vcd)
        env = dict(os.environ, PYTHONPATH=impl.REPO + os.pathsep + os.environ.get('PYTHONPATH', ''))
        def run(code, *argv):
            try:
                p = subprocess.run([sys.executable, '-c', code, *argv], stdin=subprocess.DEVNULL, stdout=subprocess.PIPE, stderr=subprocess.PIPE,
                                   env=env, timeout=120, cwd=wd)
                return p.returncode, p.stdout.decode('utf-8', 'replace')
            except subprocess.TimeoutExpired:
                return 'timeout', ''
        wawk = 'import sys; from wawk.wawk import run; sys.argv[0] = "wawk"; sys.exit(run())'
        wal = 'import sys; from wal.wal import run; sys.argv[0] = "wal"; sys.exit(run())'
        try:
            direct = run(wawk, pp, tp)
            if direct[0] == 'timeout':
                return None
            wrote = run(wawk, pp, tp, '-o', op)
            if wrote[0] != 0 or not os.path.exists(op):
                return {'what': 'wawk -o did not write the program', 'source': src, 'rc': wrote[0]}
            via = run(wal, op, '-l', tp)
            if via[0] == 'timeout':
                return None
            if direct != via:
                return {'what': 'the program written by wawk -o, run by wal, behaves differently from direct execution by wawk', 'source': src,
                        'direct': [direct[0], direct[1][:400]], 'via_o': [via[0], via[1][:400]], 'text': open(op).read()[:600]}
            return None
        finally:
            for q in (pp, tp, op):
                if os.path.exists(q):
                    os.unlink(q)

    def nontrivial(self, case, iobs):
        return True

    def classify(self, case):
        if case.get('kind'):
            return case['kind']
        return f'stmts{len(case["prog"]["stmts"])}'


def _tolist(x):
    if isinstance(x, tuple):
        return [_tolist(y) for y in x]
    if isinstance(x, list):
        return [_tolist(y) for y in x]
    if isinstance(x, dict):
        return {k: _tolist(v) for k, v in x.items()}
    return x


def _totuple(x):
    if isinstance(x, list):
        if x and isinstance(x[0], str) and x[0] in ('n', 'v', 's', 'sig', 'idx', 'bin', 'not', 'par', 'arr', 'assign', 'opassign', 'print', 'if', 'aset', 'forin', 'multi'):
            return tuple(_totuple(y) if not (isinstance(y, list) and x[0] in ('if', 'forin') and y and isinstance(y[0], list)) else [_totuple(z) for z in y] for y in x)
        return [_totuple(y) for y in x]
    if isinstance(x, dict):
        return {k: _totuple(v) for k, v in x.items()}
    return x


def _totree(t):
    if t[0] == 'a':
        return ('a', t[1])
    if t[0] == 'neg':
        return ('neg', _totree(t[1]))
    return ('bin', t[1], _totree(t[2]), _totree(t[3]))


def _aslist(x):
    return [_aslist(y) for y in x] if isinstance(x, list) else x


def _strip(c):
    if c[0] == 'L':
        return ('L', tuple(_strip(x) for x in c[2]))
    return c


CHECK = C20()
