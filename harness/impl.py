"""In-process access to the real implementation (/repo working tree)."""
import contextlib
import copy
import io
import os
import signal
import sys
import warnings
import tempfile

warnings.filterwarnings('ignore', category=SyntaxWarning)     # ast.literal_eval on fuzzed string literals
REPO = os.environ.get('WAL_REPO', '/repo')
if REPO not in sys.path:
    sys.path.insert(0, REPO)

import wal  # noqa: E402
assert os.path.realpath(os.path.dirname(wal.__file__)) == os.path.realpath(os.path.join(REPO, 'wal')), \
    f'harness imported wal from {wal.__file__}, expected {REPO}'

import wal.implementation.wal as _walimpl  # noqa: E402
from wal.core import Wal  # noqa: E402
from wal.reader import read_wal_sexpr, read_wal_sexprs, ParseError  # noqa: E402
from wal.passes import expand, optimize, resolve  # noqa: E402
from wal.ast_defs import WList, Symbol, Operator, WalEvalError  # noqa: E402

sys.setrecursionlimit(4000)

# ---- parse cache for the std library: Wal() costs ~74 ms, 57 ms of which is Lark on std.wal ----
_real_read_sexprs = _walimpl.read_wal_sexprs
_parse_cache = {}


def _cached_read_sexprs(text, filename=''):
    key = (text, filename)
    if key not in _parse_cache:
        _parse_cache[key] = _real_read_sexprs(text, filename)
    return copy.deepcopy(_parse_cache[key])


_walimpl.read_wal_sexprs = _cached_read_sexprs

_read_cache = {}


def parse(text):
    """read one expression with the real reader (cached; returns a private copy)"""
    if text not in _read_cache:
        _read_cache[text] = read_wal_sexpr(text)
    return copy.deepcopy(_read_cache[text])


class CaseTimeout(Exception):
    pass


def _alarm(signum, frame):
    raise CaseTimeout()


@contextlib.contextmanager
def time_limit(seconds):
    old = signal.signal(signal.SIGALRM, _alarm)
    signal.setitimer(signal.ITIMER_REAL, seconds)
    try:
        yield
    finally:
        signal.setitimer(signal.ITIMER_REAL, 0)
        signal.signal(signal.SIGALRM, old)


_tmpdir = None


def workdir():
    """per-process scratch directory (also the cwd, since walpath contains '.')"""
    global _tmpdir
    if _tmpdir is None or not os.path.isdir(_tmpdir):
        _tmpdir = tempfile.mkdtemp(prefix='walverif-', dir=os.environ.get('WALVERIF_TMP') or None)
        os.chdir(_tmpdir)
    return _tmpdir


def cleanup_workdir():
    global _tmpdir
    if _tmpdir and os.path.isdir(_tmpdir):
        import shutil
        os.chdir('/')
        shutil.rmtree(_tmpdir, ignore_errors=True)
    _tmpdir = None


def fresh():
    workdir()
    with contextlib.redirect_stdout(io.StringIO()):
        return Wal()


def eval_mode(w, sexpr, mode='eor'):
    """evaluate with selected passes; mode 'eorg' = the real Wal.eval (all passes + its top-level glue)"""
    ctx = w.eval_context
    if mode == 'eorg':
        return w.eval(sexpr)
    e = sexpr
    if 'e' in mode:
        e = expand(ctx, e, parent=ctx.global_environment)
    if 'o' in mode:
        e = optimize(e)
    if 'r' in mode:
        e = resolve(e, start=ctx.global_environment.environment)
    return ctx.eval(e)


def run_eval(w, sexpr, mode='eor', limit=5.0):
    """-> ('ok', value, stdout) | ('err', exception class name, stdout) | ('exit', code, stdout) | ('timeout',)"""
    buf = io.StringIO()
    try:
        with time_limit(limit), contextlib.redirect_stdout(buf):
            v = eval_mode(w, sexpr, mode)
        return ('ok', v, buf.getvalue())
    except CaseTimeout:
        return ('timeout',)
    except SystemExit as e:
        code = e.code if isinstance(e.code, int) else (0 if e.code is None else 1)
        return ('exit', code, buf.getvalue())
    except RecursionError:
        return ('err', 'RecursionError', buf.getvalue())
    except BaseException as e:  # noqa: BLE001  every Python exception is "error"
        if isinstance(e, KeyboardInterrupt):
            raise
        return ('err', type(e).__name__, buf.getvalue())


@contextlib.contextmanager
def no_optimize():
    """the optimisation pass switched off everywhere it is applied (also inside eval, eval-file, macroexpand): every module that
    imported the function gets the identity for the duration"""
    import importlib
    saved = []
    for name in ('wal.core', 'wal.implementation.core', 'wal.implementation.wal', 'wal.wal', 'wal.walc'):
        try:
            m = importlib.import_module(name)
        except Exception:  # noqa: BLE001
            continue
        if hasattr(m, 'optimize'):
            saved.append((m, m.optimize))
            m.optimize = lambda e: e
    try:
        yield
    finally:
        for m, f in saved:
            m.optimize = f
