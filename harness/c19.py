"""C19 — resampling and trimming re-index the trace consistently."""
import random

from . import framework, gen_trace

PROBE = ('(do (step (- INDEX)) (let ([r (list MAX-INDEX INDEX (find (= top.clk 1)) (count top.a) '
         '(map (fn [i] (do (set-index i) (list INDEX TS top.cnt top.d top.a v (reval top.cnt 1) (reval v -1) vn))) (range (+ MAX-INDEX 1))))]) '
         '(step (- INDEX)) r))')


PROBE_NOVIRT = ('(do (step (- INDEX)) (let ([r (list MAX-INDEX INDEX (find (= top.clk 1)) (count top.a) '
                '(map (fn [i] (do (set-index i) (list INDEX TS top.cnt top.d top.a (reval top.cnt 1)))) (range (+ MAX-INDEX 1))))]) '
                '(step (- INDEX)) r))')


def csv_text(den):
    """the same samples as a logic-analyser CSV (columns named like the signals, time in seconds)"""
    names = ['top.clk', 'top.a', 'top.d', 'top.cnt']
    rows = ['Time [s],' + ','.join(names)]
    for i, t in enumerate(den['timestamps']):
        cells = []
        for n in names:
            v = den['values'][n][i]
            cells.append(bin(v)[2:] if isinstance(v, int) else v)
        rows.append(f'{t // 10 ** 9}.{t % 10 ** 9:09d},' + ','.join(cells))
    return '\n'.join(rows) + '\n'


def _v(x):
    return ('I', x) if isinstance(x, int) else ('S', x)


def truthy(x):
    return bool(x)


def dedup(l):
    return list(dict.fromkeys(l))


class C19(framework.PropertyCheck):
    pid = 'C19'
    quick_cases = 300
    thorough_cases = 6000
    rule = ('generated trace (N<=9, as VCD or — 30 % — the same samples as CSV; two virtual signals, one of them reading the next sample) x history (len<=5) of sample-at L (increasing, with repeats, from find, singleton, '
            'full range, shuffled) / trim-trace m (below, at, above MAX-INDEX) / navigation, each followed by a full probe of every new '
            'index (INDEX TS signals virtual signal @+1 @-1) and of find/count; thorough adds all L over indices of N<=4 with len<=3, '
            'applied twice; non-trivial = some L with a repeat or non-monotone order, or a second resampling')
    assumptions = ['traces have strictly increasing timestamps (well-formed VCD): resampling identifies samples by timestamp',
                   'L holds valid original indices (0..N-1) and is non-empty']

    def cases(self, rng, tier, n):
        for _ in range(n):
            N = rng.randint(2, 9)
            seed = rng.randrange(1 << 30)
            ops = []
            for _k in range(rng.randint(1, 5)):
                r = rng.random()
                if r < 0.6:
                    kind = rng.random()
                    if kind < 0.25:
                        L = sorted(rng.sample(range(N), rng.randint(1, N)))
                    elif kind < 0.5:
                        L = sorted(rng.choice(range(N)) for _ in range(rng.randint(1, N + 2)))     # repeats
                    elif kind < 0.6:
                        L = 'find'
                    elif kind < 0.7:
                        L = [rng.randrange(N)]
                    elif kind < 0.8:
                        L = list(range(N))
                    else:
                        L = [rng.randrange(N) for _ in range(rng.randint(1, N + 1))]             # any order
                    ops.append(['sample', L])
                elif r < 0.8:
                    ops.append(['trim', rng.randint(0, N + 1)])
                else:
                    ops.append(['goto', rng.randint(0, N - 1)])
            c = {'N': N, 'seed': seed, 'ops': ops}
            if rng.random() < 0.3:
                c['csv'] = True        # the CSV reader has its own copy of the resampling code
            if rng.random() < 0.25:
                c['novirt'] = True     # no virtual signal is defined on the trace
            if rng.random() < 0.15:
                c['two'] = rng.randint(2, 9)      # a second trace is loaded as well: (sample-at L) re-indexes every loaded trace
            yield c
        if tier == 'thorough':
            import itertools
            for N in (2, 3, 4):
                for ln in (1, 2, 3):
                    for L in itertools.product(range(N), repeat=ln):
                        yield {'N': N, 'seed': 7, 'ops': [['sample', list(L)], ['sample', list(L)[::-1]], ['trim', 1]]}

    def _trace(self, case):
        return gen_trace.simple_vcd(random.Random(case['seed']), case['N'])

    def _plan_two(self, case):
        vf, den = self._trace(case)
        N, N2 = case['N'], case['two']
        vf2, den2 = gen_trace.simple_vcd(random.Random(case['seed'] + 1), N2)
        steps = [('loadvcd', 't0', gen_trace.render(vf)), ('loadvcd', 'tB', gen_trace.render(vf2))]
        exps = [('ok',), ('ok',)]
        probe = '(list t0^INDEX t0^MAX-INDEX t0^TS t0^top.cnt tB^INDEX tB^MAX-INDEX tB^TS tB^top.cnt)'
        cur = {'t0': list(range(N)), 'tB': list(range(N2))}
        dens = {'t0': den, 'tB': den2}

        def expect(pos):
            out = []
            for t in ('t0', 'tB'):
                o = cur[t][pos[t]]
                out += [('I', pos[t]), ('I', len(cur[t]) - 1), ('I', dens[t]['timestamps'][o]), _v(dens[t]['values']['top.cnt'][o])]
            return ('L', True, tuple(out))
        for op in case['ops']:
            if op[0] != 'sample' or not isinstance(op[1], list):
                continue
            L = [i for i in op[1] if i < min(N, N2)]
            if not L:
                continue
            steps.append(('eval', 'eorg', "(sample-at '(" + ' '.join(map(str, L)) + '))'))
            exps.append(('any',))
            for t in cur:
                cur[t] = dedup(L)
            pos = {'t0': 0, 'tB': 0}
            steps.append(('eval', 'eorg', probe))
            exps.append(('val', expect(pos)))
            if len(dedup(L)) > 1:
                steps.append(('eval', 'eorg', '(step 1)'))
                exps.append(('val', ('B', True)))
                pos = {'t0': 1, 'tB': 1}
                steps.append(('eval', 'eorg', probe))
                exps.append(('val', expect(pos)))
                steps.append(('eval', 'eorg', '(step -1)'))
                exps.append(('val', ('B', True)))
        return steps, exps

    def _plan(self, case):
        if case.get('two'):
            return self._plan_two(case)
        vf, den = self._trace(case)
        N = case['N']
        cur = list(range(N))
        mx = N - 1
        load = ('loadcsv', 't0', csv_text(den)) if case.get('csv') else ('loadvcd', 't0', gen_trace.render(vf))
        # vn depends on the neighbouring sample: what it caches is only valid for the sampling it was computed under
        novirt = bool(case.get('novirt'))
        PR = PROBE_NOVIRT if novirt else PROBE
        steps = [load] if novirt else [load, ('eval', 'eorg', '(defsig v (+ top.cnt 1))'), ('eval', 'eorg', '(defsig vn (reval top.cnt 1))')]
        exps = [('ok',)] if novirt else [('ok',), ('any',), ('any',)]

        trimmed = [False]

        def probe():
            vis = cur[:mx + 1]
            clk = [j for j, o in enumerate(vis) if den['values']['top.clk'][o] == 1]
            cnt_a = sum(1 for o in vis if truthy(den['values']['top.a'][o]))
            rows = []
            for j, o in enumerate(vis):
                nxt = ('I', den['values']['top.cnt'][vis[j + 1]]) if j + 1 <= mx else ('B', False)
                prv = ('I', den['values']['top.cnt'][vis[j - 1]] + 1) if j - 1 >= 0 else ('B', False)
                if novirt:
                    rows.append(('L', True, (('I', j), ('I', den['timestamps'][o]), _v(den['values']['top.cnt'][o]), _v(den['values']['top.d'][o]),
                                             _v(den['values']['top.a'][o]), nxt)))
                    continue
                rows.append(('L', True, (('I', j), ('I', den['timestamps'][o]), _v(den['values']['top.cnt'][o]), _v(den['values']['top.d'][o]),
                                         _v(den['values']['top.a'][o]), ('I', den['values']['top.cnt'][o] + 1), nxt, prv,
                                         # what a virtual signal that reads beyond the new end reports at the last index after a trim is
                                         # not fixed by the property ("values at indices <= m unchanged" vs "behaves like its body")
                                         ('ANY',) if (trimmed[0] and j == mx) else nxt)))
            return ('L', True, (('I', mx), ('I', 0), ('L', False, tuple(('I', j) for j in clk)), ('I', cnt_a), ('L', False, tuple(rows))))

        steps.append(('eval', 'eorg', PR))
        exps.append(('val', probe()))
        pos = 0
        for op in case['ops']:
            if op[0] == 'sample':
                L = op[1]
                if L == 'find':
                    steps.append(('eval', 'eorg', '(do (step (- INDEX)) (sample-at (find (= top.clk 0))))'))
                    # indices produced by find are *current* indices; the property speaks about original indices, so
                    # the case only uses find on a trace whose current indexing is the original one
                    if cur != list(range(len(cur))):
                        steps.pop()
                        continue
                    Lr = [j for j in range(mx + 1) if den['values']['top.clk'][cur[j]] == 0]
                    if not Lr:
                        steps.pop()
                        continue
                else:
                    # half of the time the trace is named (the two-argument form re-indexes that trace only)
                    named = ' t0' if (sum(L) + len(L) + case.get('seed', 0)) % 2 else ''
                    steps.append(('eval', 'eorg', "(sample-at '(" + ' '.join(map(str, L)) + ')' + named + ')'))
                    Lr = L
                exps.append(('any',))
                cur = dedup(Lr)
                mx = len(cur) - 1
                pos = 0
                trimmed[0] = False
                steps.append(('eval', 'eorg', '(list INDEX MAX-INDEX)'))
                exps.append(('val', ('L', True, (('I', 0), ('I', mx)))))
            elif op[0] == 'trim':
                if pos > op[1]:
                    continue      # trimming below the current position is outside the property (the index is not moved)
                steps.append(('eval', 'eorg', f"(trim-trace 't0 {op[1]})"))
                if op[1] < mx:
                    trimmed[0] = True
                mx = min(op[1], mx)
                exps.append(('val', ('I', mx)))
            elif op[0] == 'goto':
                if op[1] > mx:
                    continue
                steps.append(('eval', 'eorg', f'(set-index {op[1]})'))
                exps.append(('val', ('B', True)))
                pos = op[1]
                continue          # no probe: the next operation starts from this position
            steps.append(('eval', 'eorg', PR))
            exps.append(('val', probe()))
            pos = 0
        return steps, exps

    def steps(self, case):
        return self._plan(case)[0]

    def oracle(self, case, iobs):
        steps, exps = self._plan(case)
        for k, (st, ex) in enumerate(zip(steps, exps)):
            if k >= len(iobs):
                return {'what': 'evaluation raised', 'after': steps[k - 1][2][:200] if k else None, 'obs': iobs[-1] if iobs else None,
                        'ops': case['ops']}
            o = iobs[k]
            if ex[0] == 'ok' and o[0] != 'ok':
                return {'what': 'load failed', 'obs': o}
            if ex[0] == 'val' and (o[0] != 'ok' or not _match(o[1], ex[1])):
                return {'what': 'resampled/trimmed trace differs from the original at the selected samples', 'query': st[2][:120],
                        'got': o, 'want': ex[1], 'ops': case['ops'], 'N': case['N']}
        return None

    def nontrivial(self, case, iobs):
        ns = 0
        for op in case['ops']:
            if op[0] == 'sample' and isinstance(op[1], list):
                ns += 1
                if len(set(op[1])) != len(op[1]) or op[1] != sorted(op[1]):
                    return True
        return ns >= 2

    def classify(self, case):
        return ','.join(o[0] for o in case['ops'])[:40]


def _match(got, want):
    if want == ('ANY',):
        return True
    if want[0] == 'L' and got[0] == 'L':
        return got[1] == want[1] and len(got[2]) == len(want[2]) and all(_match(g, w) for g, w in zip(got[2], want[2]))
    return got == want


CHECK = C19()
