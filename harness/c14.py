"""C14 — list/array library agrees with the sequence and finite-map model; lists are immutable."""
from . import framework, gen_prog, wire

PREDS = {'pos': ('(fn [x] (> x 1))', lambda x: x > 1), 'even': ('(fn [x] (= (mod x 2) 0))', lambda x: x % 2 == 0),
         'all': ('(fn [x] #t)', lambda x: True), 'none': ('(fn [x] #f)', lambda x: False),
         'isint': ('(fn [x] (int? x))', lambda x: isinstance(x, int)), 'islist': ('(fn [x] (list? x))', lambda x: isinstance(x, list))}
ANYPREDS = ['all', 'none', 'isint', 'islist']     # defined on every kind of element
BINS = {'add': ('(fn [a x] (+ a x))', lambda a, x: a + x), 'sub': ('(fn [a x] (- a x))', lambda a, x: a - x),
        'cnt': ('(fn [a x] (+ a 1))', lambda a, x: a + 1), 'op+': ('+', lambda a, x: a + x), 'op*': ('*', lambda a, x: a * x)}
MAPS = {'inc': ('(fn [x] (+ x 1))', lambda x: x + 1), 'sq': ('(fn [x] (* x x))', lambda x: x * x), 'neg': ('-', lambda x: -x)}


def lit(v):
    """WAL source of a data value (used under quote)"""
    if isinstance(v, bool):
        return '#t' if v else '#f'
    if isinstance(v, int):
        return str(v)
    if isinstance(v, str):
        return '"' + v + '"'
    if isinstance(v, tuple) and v[0] == 'sym':
        return v[1]
    if isinstance(v, list):
        return '(' + ' '.join(lit(x) for x in v) + ')'
    raise TypeError(v)


def can(v):
    """oracle value -> stripped canonical form"""
    if v is None:
        return ('N',)
    if isinstance(v, bool):
        return ('B', v)
    if isinstance(v, int):
        return ('I', v)
    if isinstance(v, float):
        return ('F', wire.fbits(v))
    if isinstance(v, str):
        return ('S', v)
    if isinstance(v, tuple) and v[0] == 'sym':
        return ('Y', v[1])
    if isinstance(v, list):
        return ('L', tuple(can(x) for x in v))
    raise TypeError(v)


def strip(c):
    if c[0] == 'L':
        return ('L', tuple(strip(x) for x in c[2]))
    if c[0] == 'Y':
        return ('Y', c[1])
    if c[0] == 'A':
        return ('A', tuple((k, strip(v)) for k, v in c[1]))
    return c


KEYS = [('i', 1), ('s', '1'), ('y', '1'), ('i', 2), ('s', 'a'), ('y', 'a'), ('s', 'b'), ('i', 10), ('m', [1, 'a']), ('m', ['1', 'a']), ('m', [2, 2])]


def key_src(k):
    t, v = k
    if t == 'i':
        return str(v)
    if t == 's':
        return f'"{v}"'
    if t == 'y':
        return f"'{v}"
    return None


def key_str(k):
    t, v = k
    if t == 'm':
        return '-'.join(str(x) for x in v)
    return str(v)


class C14(framework.PropertyCheck):
    pid = 'C14'
    quick_cases = 1200
    thorough_cases = 25000
    rule = ('list cases: lists of ints / strings / symbols / nested lists up to length 8 (incl. empty, singleton, repeats) x every list operation '
            '(list first second last rest length in + append map fold zip range max min average sum slice reverse filter partition sort) with '
            'predicates and binary functions from a small family, a second reference held to every argument list (identity and contents compared '
            'after the call); array cases: histories up to length 8 of seta / dela / geta / in / length / mapa over keys mixing ints, strings, symbols '
            'and multi-part keys, two names for one array; thorough adds all lists over {0,1,2} up to length 5 for every operation; oracle = Python '
            'list/dict; non-trivial = list length >= 2 or an array history with an update and a delete')

    def gen_list(self, rng, kind=None, maxlen=8):
        kind = kind or rng.choice(['int', 'int', 'int', 'str', 'sym', 'mixed', 'nested'])
        n = rng.choice([0, 1, 1, 2, 3, 4, 5, 8]) if maxlen >= 8 else rng.randint(0, maxlen)
        if kind == 'int':
            return [rng.choice([0, 1, 2, 3, 5, -1, 7, 2]) for _ in range(n)]
        if kind == 'str':
            return [rng.choice(['a', 'b', '', 'ab']) for _ in range(n)]
        if kind == 'sym':
            return [('sym', rng.choice(['p', 'q', 'r'])) for _ in range(n)]
        if kind == 'nested':
            return [rng.choice([[1, 2], [], [3], 4, 'a']) for _ in range(n)]
        return [rng.choice([1, 'a', ('sym', 'p'), 2, [1], True]) for _ in range(n)]

    def cases(self, rng, tier, n):
        ops = ['first', 'second', 'last', 'rest', 'length', 'in', 'cat', 'append', 'map', 'fold', 'zip', 'range', 'max', 'min', 'average', 'sum',
               'slice1', 'slice2', 'reverse', 'filter', 'partition', 'sort', 'list', 'catlit']
        for i in range(n):
            if i % 4 == 3:
                hist = []
                for _ in range(rng.randint(1, 8)):
                    r = rng.random()
                    k = rng.choice(KEYS)
                    if r < 0.4:
                        if k[0] == 'm':
                            k = rng.choice(KEYS[:8])
                        hist.append(['seta', k, rng.choice([1, 2, 'v', [1, 2], ('sym', 'z'), ['computed', 3], ['computed', 0]])])
                    elif r < 0.55:
                        if k[0] == 'm':
                            k = rng.choice(KEYS[:8])
                        hist.append(['dela', k])
                    elif r < 0.7:
                        if k[0] == 'm':
                            k = rng.choice(KEYS[:8])
                        hist.append(['geta', k])
                    elif r < 0.85:
                        hist.append(['in', k])
                    elif r < 0.93:
                        hist.append(['length'])
                    else:
                        hist.append(['mapa'])
                yield {'t': 'array', 'hist': hist, 'init': [[rng.choice(KEYS[:8]), rng.randint(0, 9)] for _ in range(rng.choice([0, 1, 2]))]}
                continue
            op = rng.choice(ops)
            if op in ('max', 'min', 'average', 'sum', 'sort', 'map', 'fold', 'filter', 'partition'):
                xs = self.gen_list(rng, 'int')
            else:
                xs = self.gen_list(rng)
            c = {'t': 'list', 'op': op, 'xs': xs}
            if rng.random() < 0.25:
                c['computed'] = True        # xs is the result of a computation (not a quoted constant): it is a value like any other and never changes
            if op == 'catlit':
                c['a'], c['b'], c['shape'] = rng.randint(0, 9), rng.randint(0, 9), rng.choice(['tail', 'around', 'head', 'nested', 'nestedtail', 'appendfx'])
            if op in ('cat', 'zip'):
                c['ys'] = self.gen_list(rng)
            if op in ('in', 'append'):
                c['x'] = rng.choice(xs) if xs and rng.random() < 0.5 else rng.choice([1, 'a', ('sym', 'p'), [1, 2], 9])
                if op == 'in' and rng.random() < 0.5:
                    c['more'] = [rng.choice(xs) if xs and rng.random() < 0.6 else rng.choice([1, 'a', 9, 0]) for _ in range(rng.randint(1, 2))]
            if op == 'map':
                c['f'] = rng.choice(list(MAPS))
            if op == 'fold':
                c['f'] = rng.choice(list(BINS))
                c['acc'] = rng.choice([0, 1, 10])
                if rng.random() < 0.3:
                    c['f'] = 'cnt'
                    c['xs'] = self.gen_list(rng, rng.choice(['sym', 'mixed', 'str']))
            if op in ('filter', 'partition'):
                c['f'] = rng.choice(['pos', 'even', 'all', 'none'])
                r4 = rng.random()
                if r4 < 0.4:
                    # elements that are lists themselves (also empty ones) are elements like any other
                    c['xs'] = self.gen_list(rng, 'nested')
                    c['f'] = rng.choice(ANYPREDS)
                elif r4 < 0.6:
                    # symbols are data: an element is handed to the function as it is, never looked up as a variable
                    c['xs'] = self.gen_list(rng, rng.choice(['sym', 'mixed']))
                    c['f'] = rng.choice(['all', 'none', 'islist'])
            if op == 'range':
                c['args'] = rng.choice([[rng.randint(-2, 6)], [rng.randint(-3, 3), rng.randint(-3, 8)],
                                        [rng.randint(-3, 8), rng.randint(-3, 8), rng.choice([1, 2, 3, -1, -2])]])
            if op == 'slice1':
                c['i'] = rng.randint(-len(xs) - 1, len(xs))
            if op == 'slice2':
                c['i'], c['j'] = rng.randint(-len(xs) - 1, len(xs) + 1), rng.randint(-len(xs) - 1, len(xs) + 1)
            yield c
        if tier == 'thorough':
            import itertools
            for L in range(0, 6):
                for xs in itertools.product([0, 1, 2], repeat=L):
                    for op in ('first', 'last', 'rest', 'reverse', 'sort', 'sum', 'max', 'length'):
                        yield {'t': 'list', 'op': op, 'xs': list(xs)}
                    yield {'t': 'list', 'op': 'filter', 'xs': list(xs), 'f': 'pos'}
                    yield {'t': 'list', 'op': 'partition', 'xs': list(xs), 'f': 'even'}

    # ---- expected value (or 'err') of a list case
    def expect(self, c):
        op, xs = c['op'], c['xs']
        E = 'err'
        if op == 'first':
            return xs[0] if xs else E
        if op == 'second':
            return xs[1] if len(xs) > 1 else E
        if op == 'last':
            return xs[-1] if xs else E
        if op == 'rest':
            return xs[1:]
        if op == 'length':
            return len(xs)
        if op == 'list':
            return list(xs)
        if op == 'in':
            # several probe values: every one of them must be an element
            return all(any(_eq(p, y) for y in xs) for p in [c['x']] + c.get('more', []))
        if op == 'catlit':
            return {'tail': xs + [c['a'], c['b']], 'around': [c['a']] + xs + [c['b']], 'head': [c['a'], c['b']] + xs,
                    'nested': [c['a'] + c['b']] + xs, 'nestedtail': xs + [c['a'] + c['b']],
                    'appendfx': [xs + [[1, c['a']]], 1]}[c['shape']]
        if op == 'cat':
            return xs + c['ys']
        if op == 'append':
            return xs + [c['x']]
        if op == 'map':
            return [MAPS[c['f']][1](x) for x in xs]
        if op == 'fold':
            a = c['acc']
            for x in xs:
                a = BINS[c['f']][1](a, x)
            return a
        if op == 'zip':
            return [[a, b] for a, b in zip(xs, c['ys'])]
        if op == 'range':
            return list(range(*c['args']))
        if op == 'max':
            return max(xs) if xs else E
        if op == 'min':
            return min(xs) if xs else E
        if op == 'average':
            return sum(xs) / len(xs) if xs else E
        if op == 'sum':
            return sum(xs)
        if op == 'slice1':
            i = c['i']
            return xs[i] if -len(xs) <= i < len(xs) else E
        if op == 'slice2':
            return xs[c['i']:c['j']]
        if op == 'reverse':
            return xs[::-1]
        if op == 'filter':
            return [x for x in xs if PREDS[c['f']][1](x)]
        if op == 'partition':
            p = PREDS[c['f']][1]
            return [[x for x in xs if p(x)], [x for x in xs if not p(x)]]
        if op == 'sort':
            return sorted(xs)
        raise ValueError(op)

    def call(self, c):
        op = c['op']
        q = lambda v: "'" + lit(v)       # noqa: E731
        if op in ('first', 'second', 'last', 'rest', 'length', 'max', 'min', 'average', 'sum', 'reverse', 'sort'):
            return f'({op} xs)'
        if op == 'list':
            return '(list ' + ' '.join(q(x) if isinstance(x, (list, tuple)) else lit(x) for x in c['xs']) + ')'
        if op == 'in':
            return '(in ' + ' '.join(q(p) for p in [c['x']] + c.get('more', [])) + ' xs)'
        if op == 'catlit':
            # several numeric literals next to a list operand: each is an element of its own
            # ... a sum of two variables next to a list operand is one element (the inner sum is a number, not a list to splice);
            # an appended element that is itself a list is computed once
            return {'tail': f'(+ xs {c["a"]} {c["b"]})', 'around': f'(+ {c["a"]} xs {c["b"]})', 'head': f'(+ {c["a"]} {c["b"]} xs)',
                    'nested': f'(let ([va {c["a"]}] [vb {c["b"]}]) (+ (+ va vb) xs))',
                    'nestedtail': f'(let ([va {c["a"]}] [vb {c["b"]}]) (+ xs (+ va vb)))',
                    'appendfx': f'(let ([cnt 0]) (list (append xs (do (set [cnt (+ cnt 1)]) (list cnt {c["a"]}))) cnt))'}[c['shape']]
        if op == 'cat':
            return '(+ xs ys)'
        if op == 'append':
            return f'(append xs {q(c["x"])})'
        if op == 'map':
            return f'(map {MAPS[c["f"]][0]} xs)'
        if op == 'fold':
            return f'(fold {BINS[c["f"]][0]} {c["acc"]} xs)'
        if op == 'zip':
            return '(zip xs ys)'
        if op == 'range':
            return '(range ' + ' '.join(map(str, c['args'])) + ')'
        if op == 'slice1':
            return f'(slice xs {c["i"]})'
        if op == 'slice2':
            return f'(slice xs {c["i"]} {c["j"]})'
        if op in ('filter', 'partition'):
            return f'({op} {PREDS[c["f"]][0]} xs)'
        raise ValueError(op)

    def _plan(self, c):
        if c['t'] == 'list':
            if c.get('computed'):
                steps = [('eval', 'eor', f"(define xs (map (fn [q] q) '{lit(c['xs'])}))"), ('eval', 'eor', '(define xs2 xs)')]
            else:
                steps = [('eval', 'eor', f"(define xs '{lit(c['xs'])})"), ('eval', 'eor', '(define xs2 xs)')]
            if 'ys' in c:
                steps += [('eval', 'eor', f"(define ys '{lit(c['ys'])})"), ('eval', 'eor', '(define ys2 ys)')]
            steps.append(('eval', 'eor', f'(list {self.call(c)})'))
            steps.append(('eval', 'eor', '(list xs xs2 (= xs xs2)' + (' ys ys2' if 'ys' in c else '') + ')'))
            return steps, None
        steps = [('eval', 'eor', '(define arr (array ' + ' '.join(f'({key_src(k)} {v})' for k, v in c['init']) + '))'),
                 ('eval', 'eor', '(define arr2 arr)')]
        d = {}
        for k, v in c['init']:
            d[key_str(tuple(k) if isinstance(k, list) else k)] = v
        exps = []
        for h in c['hist']:
            k = tuple(h[1]) if len(h) > 1 and isinstance(h[1], list) else (h[1] if len(h) > 1 else None)
            name = 'arr2' if len(exps) % 3 == 2 else 'arr'
            if h[0] == 'seta':
                v = h[2]
                vv = tuple(v) if isinstance(v, list) and v and v[0] == 'sym' else v
                if isinstance(v, list) and v and v[0] == 'computed':
                    # the stored value is the result of a computation (a list built by range): data like any other
                    vv = list(range(v[1]))
                    steps.append(('eval', 'eor', f"(do (seta {name} {key_src(k)} (range {v[1]})) 0)"))
                else:
                    steps.append(('eval', 'eor', f"(do (seta {name} {key_src(k)} '{lit(vv)}) 0)"))
                d[key_str(k)] = vv
                exps.append(('ok', 0))
            elif h[0] == 'dela':
                steps.append(('eval', 'eor', f'(do (dela {name} {key_src(k)}) 0)'))
                if key_str(k) in d:
                    del d[key_str(k)]
                    exps.append(('ok', 0))
                else:
                    exps.append(('err',))
            elif h[0] == 'geta':
                steps.append(('eval', 'eor', f'(list (geta {name} {key_src(k)}))'))
                exps.append(('ok', [d[key_str(k)]]) if key_str(k) in d else ('err',))
            elif h[0] == 'in':
                if k[0] == 'm':
                    parts = ' '.join(f'"{x}"' if isinstance(x, str) else str(x) for x in k[1])
                    steps.append(('eval', 'eor', f'(in {parts} {name})'))
                else:
                    steps.append(('eval', 'eor', f'(in {key_src(k)} {name})'))
                exps.append(('ok', key_str(k) in d))
            elif h[0] == 'length':
                steps.append(('eval', 'eor', f'(length {name})'))
                exps.append(('ok', len(d)))
            else:
                steps.append(('eval', 'eor', f'(mapa (fn [k v] (list k v)) {name})'))
                exps.append(('ok', [[kk, vv] for kk, vv in d.items()]))
            if exps[-1] == ('err',):
                break
        if not exps or exps[-1] != ('err',):
            steps.append(('eval', 'eor', '(mapa (fn [k v] (list k v)) arr2)'))
            exps.append(('ok', [[kk, vv] for kk, vv in d.items()]))
        return steps, exps

    def steps(self, case):
        return self._plan(case)[0]

    def oracle(self, case, iobs):
        steps, exps = self._plan(case)
        if case['t'] == 'list':
            want = self.expect(case)
            k = len(steps) - 2
            if k >= len(iobs):
                return {'what': 'setup raised', 'obs': iobs[-1] if iobs else None}
            o = iobs[k]
            if want == 'err':
                if o[0] == 'ok':
                    return {'what': 'operation must raise on this list but returned a value', 'call': self.call(case), 'xs': lit(case['xs']), 'got': o}
                return None
            if o[0] != 'ok' or strip(o[1]) != ('L', (can(want),)):
                return {'what': 'list operation differs from the sequence model', 'call': self.call(case), 'xs': lit(case['xs']),
                        'ys': lit(case.get('ys', [])), 'got': o, 'want': can(want)}
            o2 = iobs[k + 1] if k + 1 < len(iobs) else None
            wx = can(case['xs'])
            vals = [wx, wx, ('B', True)] + ([can(case['ys'])] * 2 if 'ys' in case else [])
            if o2 is None or o2[0] != 'ok' or strip(o2[1]) != ('L', tuple(vals)):
                return {'what': 'an argument list was modified by the operation', 'call': self.call(case), 'xs': lit(case['xs']), 'after': o2}
            return None
        for i, ex in enumerate(exps):
            si = 2 + i
            if si >= len(iobs):
                return {'what': 'array history stopped early', 'obs': iobs[-1] if iobs else None, 'hist': case['hist']}
            o = iobs[si]
            if ex[0] == 'err':
                if o[0] == 'ok':
                    return {'what': 'array operation on a missing key must raise', 'step': steps[si][2], 'got': o, 'hist': case['hist']}
                return None
            w = ex[1]
            want = ('B', w) if isinstance(w, bool) else can(w)
            if o[0] != 'ok' or strip(o[1]) != want:
                return {'what': 'array differs from the finite-map model', 'step': steps[si][2], 'got': o, 'want': want, 'hist': case['hist']}
        return None

    def nontrivial(self, case, iobs):
        if case['t'] == 'list':
            return len(case['xs']) >= 2
        ks = [h[0] for h in case['hist']]
        return 'seta' in ks and 'dela' in ks

    def classify(self, case):
        return case['t'] + ':' + case.get('op', 'hist')


def _eq(a, b):
    if isinstance(a, bool) or isinstance(b, bool):
        return isinstance(a, (bool, int)) and isinstance(b, (bool, int)) and int(a) == int(b)
    if type(a) is not type(b):
        return False
    return a == b


CHECK = C14()
