"""Generators of WAL source text from the reader's grammar (C10, C11): token lists, so that layout can be varied."""

OPERATOR_TOKENS = ['+', '-', '*', '/', '&&', '||', '=', '!=', '>', '<', '>=', '<=', '!', '**']
SYMBOLS = ['a', 'b', 'foo', 'x1', 'top.sub.sig', 'v<3>', 'a_b', '_x', '.d', 'if', 'let', 'define', 'print', 'step', 'first', 'geta/default',
           'signal?', 'string->int', 'set!', 'a-b', 'x:y', 'tru', 'falsey', 'truex', 't', 'f', 'INDEX', 'a^b', 'p|q', 'k=v', 'a,b', '\\esc[0]', '\\x.y',
           'a§b', 'e+1', 'nil', 'unquote', 'quote', 'reval', 'slice', 'array', 'resolve-scope',
           # user symbols spelled like the interpreter's own names for its operators are ordinary symbols
           'QUOTE', 'QUASIQUOTE', 'UNQUOTE', 'REL_EVAL', 'SLICE', 'ADD', 'Quote', 'name', 'value']
STRINGS = ['', 'a', 'hello world', 'q"uote', 'back\\slash', 'new\nline', 'tab\there', 'mixed "\\" \n\t end', ';not a comment', '(parens)', "it's",
           '\\n literal', 'C:\\new\\table', 'µs °C', '%d %s', 'Größe:\t5 µs\n', 'ü"q\\', 'a\\', 'C:\\tmp\\', '\\', 'é\n§ end', 'astral \U0001F600 plane', '\U00010348"q']


def esc(s):
    return '"' + s.replace('\\', '\\\\').replace('"', '\\"').replace('\n', '\\n').replace('\t', '\\t').replace('\r', '\\r') + '"'


def esc_rawtab(s):
    """like esc, but a TAB character of the string is written as it is (a literal may contain it)"""
    return '"' + s.replace('\\', '\\\\').replace('"', '\\"').replace('\n', '\\n').replace('\r', '\\r') + '"'


class Gen:
    def __init__(self, rng):
        self.rng = rng

    def int_tok(self, bits=None):
        r = self.rng
        bits = bits or r.choice([1, 4, 8, 31, 64, 65, 128, 300])
        v = r.getrandbits(bits)
        base = r.choice(['dec', 'dec', 'hex', 'bin', 'neg', 'plus'])
        pad = '0' * r.choice([0, 0, 0, 1, 2])       # leading zeros do not change a decimal numeral, signed or not
        if base == 'dec':
            return pad + str(v), v
        if base == 'neg':
            return '-' + pad + str(v), -v
        if base == 'plus':
            return '+' + pad + str(v), v
        if base == 'hex':
            h = format(v, 'x')
            if r.random() < 0.5:
                h = h.upper()
            return '0x' + h, v
        return '0b' + format(v, 'b'), v

    def atom(self):
        r = self.rng
        k = r.random()
        if k < 0.3:
            return [self.int_tok()[0]]
        if k < 0.55:
            return [r.choice(SYMBOLS)]
        if k < 0.65:
            return [r.choice(OPERATOR_TOKENS)]
        if k < 0.8:
            return [esc(r.choice(STRINGS))]
        if k < 0.87:
            return [r.choice(['#t', '#f', 'true', 'false'])]
        if k < 0.93:
            return [r.choice(['1.5', '0.25', '-2.0', '10.', '+3.125', '100.0'])]
        return [r.choice(['~', '#']) + r.choice(['a', 'foo', 'sig.x', 'v<1>'])]

    def strict(self, d):
        """tokens of a sexpr_strict (no leading/trailing layout needed)"""
        r = self.rng
        k = r.random()
        if d <= 0 or k < 0.35:
            e = self.atom()
        elif k < 0.7:
            o, c = r.choice(['()', '()', '[]', '{}'])
            e = [o]
            for _ in range(r.choice([0, 1, 2, 2, 3, 4])):
                e += self.sexpr(d - 1)
            e.append(c)
        elif k < 0.85:
            q = r.choice(["'", '`', ',', ',@'])
            e = [q + 'GLUE'] + self.sexpr(d - 1)
        else:
            e = self.strict(d - 1)
        # slices
        while r.random() < 0.12:
            e = e + ['GLUE[GLUE'] + self.sexpr(d - 1) + (['GLUE:GLUE'] + self.sexpr(d - 1) if r.random() < 0.5 else []) + ['GLUE]']
        return e

    def sexpr(self, d):
        e = self.strict(d)
        if self.rng.random() < 0.12:
            e = e + ['GLUE@GLUE'] + self.strict(max(d - 1, 0))
        return e


def join(tokens, rng=None):
    """render a token list; GLUE marks mandatory adjacency; plain mode (rng None) writes the minimal layout
    (one blank between neighbours, none inside brackets); with rng, random blanks / newlines / comments are inserted at
    every token boundary where the grammar admits layout"""
    out = []
    glue_next = True
    prev = None
    for t in tokens:
        gl = t.startswith('GLUE')
        gr = t.endswith('GLUE') and len(t) > 4
        body = t[4 if gl else 0: len(t) - 4 if gr else len(t)]
        if (prev or '').startswith('\\') and (gl or glue_next):
            out.append(' ')          # an escaped identifier extends to the next blank
        elif not glue_next and not gl:
            if rng is None:
                if not (prev in ('(', '[', '{') or body in (')', ']', '}')) or (prev or '').startswith('\\'):
                    out.append(' ')
            else:
                k = rng.random()
                need = not (prev in ('(', '[', '{') or body in (')', ']', '}')) or (prev or '').startswith('\\')
                if k < 0.4:
                    out.append(' ' if need or rng.random() < 0.5 else '')
                else:
                    out.append(' ' if k < 0.55 else '\n' if k < 0.7 else '  \t ' if k < 0.8 else ' ; a comment ( " \n' if k < 0.88 else ' ;\n' if k < 0.92 else '\n;\n;;\n ' if k < 0.94 else '\n;c\n\r\n ' if k < 0.97 else '\x0c' if k < 0.985 else '\r')
        out.append(body)
        glue_next = gr
        prev = body
    return ''.join(out)
