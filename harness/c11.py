"""C11 — printed expressions read back identically; shorthands equal their long forms."""
import random

from . import framework, gen_reader, wire
from .c10 import read_one


def printed(src):
    """-> ('ok', text) | ('skip',) : wal_str of what the reader produced for src"""
    from wal.reader import read_wal_sexpr, ParseError
    from wal.util import wal_str
    try:
        return ('ok', wal_str(read_wal_sexpr(src)))
    except ParseError:
        return ('skip',)
    except RecursionError:
        return ('skip',)


class C11(framework.PropertyCheck):
    pid = 'C11'
    quick_cases = 3000
    thorough_cases = 120000
    rule = ('expressions generated from the reader\'s grammar up to depth 5 (every operator and symbol shape incl. dots, <n>, escaped identifiers, '
            'operator-like symbols; integers in three bases; positional floats; booleans; strings with quote, backslash, newline, tab; nested quote / '
            'quasiquote / unquote / unquote-splice; slices and @ on every operand kind): read -> print -> read must be the identity; every shorthand '
            '(e@k ~s #s e[i] e[h:l] \' ` , ,@ and the three bracket pairs) applied to generated operands is compared with its long form; the printed '
            'text is also compared with the Lean printer, the read with the Lean reader; values built directly (nested lists of strings over a b \\ " n t r blank newline tab, integers, symbols) are printed and read back; non-trivial = the printed text differs from the source text')
    assumptions = ['floats with positional representation only (exponent notation of repr is outside the quantifier)', 'ASCII text']

    def cases(self, rng, tier, n):
        for i in range(n):
            g = gen_reader.Gen(random.Random(rng.randrange(1 << 30)))
            if i % 3 == 2:
                def operand():
                    for _ in range(20):
                        t = gen_reader.join(g.strict(rng.randint(0, 2)))
                        # a prefix form binds looser than @ / [ ] ('a@1 is '(a@1)); an escaped identifier extends to the next blank
                        if t and t[0] not in "'`,\\" and '\\' not in t:
                            return t
                    return 'a'
                a, b, c = operand(), operand(), operand()
                k = rng.choice(['at', 'scope', 'group', 'bit', 'slice', 'quote', 'qq', 'unq', 'unqs', 'brackets', 'symhead'])
                S = rng.choice(['QUOTE', 'QUASIQUOTE', 'UNQUOTE', 'UNQUOTE_SPLICE', 'REL_EVAL', 'Quote', 'quot', 'unquote-splice'])
                s = rng.choice(['a', 'foo', 'sig.x', 'v<1>', 'iff', 'T', 'F', 'tr', 'Fa', 'tf', 'ft', 'tt', 'ff', 'tf.x'])     # operator names are not signal names: ~if keeps the symbol
                pair = {'at': (f'{a}@{b}', f'(reval {a} {b})'), 'scope': (f'~{s}', f'(resolve-scope {s})'), 'group': ((f'#{s}x', f'(resolve-group {s}x)') if rng.random() < 0.5 or s in ('tr',) else (f'#{s}', f'(resolve-group {s})')),
                        'bit': (f'{a}[{b}]', f'(slice {a} {b})'), 'slice': (f'{a}[{b} : {c}]', f'(slice {a} {b} {c})'), 'quote': (f"'{a}", f'(quote {a})'),
                        'qq': (f'`{a}', f'(quasiquote {a})'), 'unq': (f'`(x ,{a})', None), 'unqs': (f'`(x ,@{a})', None),
                        'brackets': (f'({a} {b})', f'[{a} {b}]', '{' + f'{a} {b}' + '}'),
                        # a list headed by a user symbol that is spelled like one of the interpreter's own operator names is an ordinary list
                        'symhead': (f'({S} {a})', f'[{S} {a}]')}[k]
                yield {'k': 'short', 'kind': k, 'texts': [t for t in pair if t is not None]}
                if k == 'symhead':
                    # ... and prints as a list that reads back as itself
                    yield {'k': 'rt', 'src': rng.choice([f'({S} {a})', f'(do ({S} {a}) ({S}))', f"'({S} x)"])}
            elif i % 500 == 13:
                # the other writer of WAL text: wawk -o (statements far longer than a text line, blanks inside strings)
                words = ' '.join(rng.choice(['alpha', 'beta', 'gamma', 'delta', 'x', 'yz']) for _ in range(rng.randint(25, 45)))
                yield {'k': 'wawko', 'words': words, 'n': rng.randint(1, 3)}
            elif i % 50 == 7:
                # reading is a function of the text alone: the same text reads the same after it has been evaluated
                yield {'k': 'reread', 'src': rng.choice(['(when ready (inc n))', '(unless (> n 2) (set! n 5))', '(for/list [i (range 2)] (inc n))',
                                                         '(cond [(> n 1) 1] [else (dec n)])', '(do (defun f9 [a] (when a 1)) (f9 n))'])}
            elif i % 7 == 3:
                # values built directly (not obtained by reading): print -> read must give the value back
                def sval():
                    return ''.join(rng.choice('ab\\\\"ntr \n\t0x') for _ in range(rng.randint(0, 8)))
                def val(d):
                    r = rng.random()
                    if d <= 0 or r < 0.5:
                        return ['s', sval()]
                    if r < 0.57:
                        return ['i', rng.randint(-50, 50)]
                    if r < 0.6:
                        # floats that need all 17 significant digits (and a few short ones)
                        return ['f', rng.choice([0.1 + 0.2, 1 / 3, 2 / 3, 1.5, 0.1, 123456.789, 1.1 * 1.1, 100.0 / 7])]
                    if r < 0.7:
                        return ['y', rng.choice(['a', 'foo', 'sig.x', 'x1'])]
                    return ['l', [val(d - 1) for _ in range(rng.randint(0, 3))]]
                yield {'k': 'val', 'v': ['l', [val(rng.randint(0, 2)) for _ in range(rng.randint(1, 3))]]}    # a list at top level: a bare string would be taken for source text
            elif i % 7 == 1:
                # long forms whose operands are prefix forms or shorthands themselves
                a = gen_reader.join(g.strict(rng.randint(0, 2)))
                q = rng.choice(["'", '`', ',', ',@'])
                yield {'k': 'rt', 'src': rng.choice([f"(reval {q}{a} 1)", f'(reval (reval {a} 1) 2)', f"(slice {q}{a} 1)", f'(reval (slice {a} 3 0) -1)',
                                                     f"(quote (reval {a} 1))", f'`(reval ,s -1)', f"(reval (quote {a}) 2)", f'(resolve-scope {a})',
                                                     f'(slice (reval {a} 1) 2)', f'(unquote {q}{a})'])}
            else:
                yield {'k': 'rt', 'src': gen_reader.join(g.sexpr(rng.randint(0, 5)))}

    def value(self, v):
        from wal.ast_defs import Symbol, WList
        k, x = v
        return x if k in ('s', 'i', 'f') else Symbol(x) if k == 'y' else WList([self.value(e) for e in x])

    def steps(self, case):
        if case['k'] in ('reread', 'wawko'):
            return None
        if case['k'] == 'val':
            from wal.util import wal_str
            v = self.value(case['v'])
            return [('print', v), ('read', wal_str(v))]
        if case['k'] == 'rt':
            st = [('read', case['src'])]
            p = printed(case['src'])
            if p[0] == 'ok':
                st += [('print', case['src']), ('read', p[1])]
            return st
        return [('read', t) for t in case['texts']]

    def wawko(self, case):
        import os
        import subprocess
        import sys
        from . import impl, session
        from wal.reader import read_wal_sexprs
        src = 'BEGIN: {\n' + '\n'.join(f'  print("{case["words"]} {k}", {k});' for k in range(case['n'])) + '\n}\ntop.clk: {\n  x = x + 1;\n}\n'
        wd = impl.workdir()
        pp, tp, op = (os.path.join(wd, n) for n in ('p11.wawk', 't11.vcd', 'o11.wal'))
        with open(pp, 'w') as f:
            f.write(src)
        with open(tp, 'w') as f:
            f.write('$scope module top $end $var wire 1 ! clk $end $upscope $end $enddefinitions $end #0 0! #1 1!\n')
        env = dict(os.environ, PYTHONPATH=impl.REPO + os.pathsep + os.environ.get('PYTHONPATH', ''))
        try:
            p = subprocess.run([sys.executable, '-c', 'import sys; from wawk.wawk import run; sys.argv[0] = "wawk"; sys.exit(run())', pp, tp, '-o', op],
                               stdin=subprocess.DEVNULL, stdout=subprocess.PIPE, stderr=subprocess.PIPE, env=env, timeout=120, cwd=wd)
            if p.returncode != 0 or not os.path.exists(op):
                return {'what': 'wawk -o did not write the program', 'rc': p.returncode, 'stderr': p.stderr.decode('utf-8', 'replace')[-300:]}
            text = open(op).read()
            want = wire.canon(session.wawk_emit(src)[0])
            try:
                got = wire.canon(list(read_wal_sexprs(text)))
            except BaseException as e:  # noqa: BLE001
                return {'what': 'the text written by wawk -o does not read back', 'error': type(e).__name__, 'text': text[:400]}
            if _nokind(got) != _nokind(want):
                return {'what': 'the text written by wawk -o reads back as a different program', 'text': text[:400]}
            return None
        except subprocess.TimeoutExpired:
            return None
        finally:
            for q in (pp, tp, op):
                if os.path.exists(q):
                    os.unlink(q)

    def oracle(self, case, iobs):
        if case['k'] == 'wawko':
            return self.wawko(case)
        if case['k'] == 'reread':
            from . import impl
            first = read_one(case['src'])
            w = impl.fresh()
            import contextlib
            import io
            for t in ('(define n 0)', '(define ready 1)', case['src'], case['src']):
                try:
                    with contextlib.redirect_stdout(io.StringIO()), contextlib.redirect_stderr(io.StringIO()):
                        w.eval_str(t)
                except BaseException:  # noqa: BLE001
                    pass
            again = read_one(case['src'])
            if again != first:
                return {'what': 'the same text reads differently after it has been evaluated', 'text': case['src'], 'first': first, 'again': again}
            return None
        if case['k'] == 'val':
            want = ('ok', wire.canon(self.value(case['v'])))
            if iobs[0][0] != 'ok':
                return {'what': 'printing raised', 'value': case['v'], 'got': iobs[0]}
            if iobs[1] != want:
                return {'what': 'printed value does not read back as the value', 'value': case['v'], 'printed': iobs[0][1], 'read_back': iobs[1], 'want': want}
            return None
        if case['k'] == 'rt':
            if iobs[0][0] == 'other':
                return {'what': 'reader raised an exception other than the parse error', 'text': case['src'], 'got': iobs[0]}
            if iobs[0][0] != 'ok' or len(iobs) < 3:
                return None
            if iobs[1][0] != 'ok':
                return {'what': 'printing raised', 'text': case['src'], 'got': iobs[1]}
            if iobs[2] != iobs[0]:
                return {'what': 'printed expression does not read back identically', 'source': case['src'], 'printed': iobs[1][1],
                        'first_read': iobs[0], 'read_back': iobs[2]}
            return None
        rs = iobs
        if any(r[0] == 'other' for r in rs):
            return {'what': 'reader raised an exception other than the parse error', 'texts': case['texts'], 'got': rs}
        if case['kind'] in ('unq', 'unqs'):
            return None
        if any(r != rs[0] for r in rs[1:]):
            return {'what': 'shorthand does not read as its documented long form', 'kind': case['kind'], 'texts': case['texts'], 'results': rs}
        return None

    def nontrivial(self, case, iobs):
        if case['k'] in ('short', 'val', 'reread', 'wawko'):
            return True
        return iobs is not None and len(iobs) > 1 and iobs[1][0] == 'ok' and iobs[1][1] != case['src']

    def classify(self, case):
        return case['k'] + (':' + case['kind'] if 'kind' in case else '')


def _nokind(c):
    return ('L', tuple(_nokind(x) for x in c[2])) if c[0] == 'L' else c


CHECK = C11()
