"""C10 — reader is total and literals denote their values in every position."""
import random

from . import framework, gen_reader, impl, wire

ALPHABET = list('()[]{}\'`,@~#"\\;:+-*/=<>!&|.0123456789abcxyzABXtf_ \n\t') + ['0x', '0b', '#t', 'true', '1.5', '§']


def read_one(src):
    """-> ('ok', canonical) | ('parse',) | ('other', exception class)"""
    from wal.reader import read_wal_sexpr, ParseError
    try:
        return ('ok', wire.canon(read_wal_sexpr(src)))
    except ParseError:
        return ('parse',)
    except RecursionError:
        return ('parse',)
    except BaseException as e:  # noqa: BLE001
        return ('other', type(e).__name__)


def read_many(src):
    from wal.reader import read_wal_sexprs, ParseError
    try:
        return ('ok', wire.canon(read_wal_sexprs(src)))
    except ParseError:
        return ('parse',)
    except BaseException as e:  # noqa: BLE001
        return ('other', type(e).__name__)


class C10(framework.PropertyCheck):
    pid = 'C10'
    quick_cases = 4000
    thorough_cases = 150000
    rule = ('totality: random strings over the language alphabet, grammar-generated texts and their mutations (delete/insert/replace/truncate), '
            'length<=200; literals: integers up to 300 bits in decimal (signed), 0x and 0b, at top level, inside lists, after quote, as @ offset '
            'and as slice bound; float literals (also without fraction digits) at top level, in lists, after quote; strings over printable characters plus the supported escapes; layouts: blanks, newlines, tabs and ;comments inserted '
            'at token boundaries; trailing garbage after a complete expression; shebang line for program files; texts with macro calls read again after '
            'an evaluation of the same text (the denotation is a function of the text); non-trivial = the text is '
            'accepted and contains a literal, or is rejected after at least one complete token')
    assumptions = ['ASCII plus the section sign and a few Latin-1 characters; Python\'s Unicode-aware \\w \\d \\s classes are outside the model',
                   'the float denotation is Python\'s float(text) (compared by IEEE bits)']

    def cases(self, rng, tier, n):
        for i in range(n):
            k = i % 8
            g = gen_reader.Gen(random.Random(rng.randrange(1 << 30)))
            if k in (0, 1):
                r = rng.random()
                if r < 0.12:
                    # texts the grammar accepts but whose conversion can fail: truncated escapes, unknown names, huge numerals
                    s = rng.choice(['"\\x"', '"\\x4"', '"a\\u12"', '"\\U0001"', '"\\N{no such name}"', '(a "\\xZZ")', '"\\N"', "'\"\\u\"",
                                    '9' * rng.choice([4299, 4301, 5000]), '(f ' + '1' * 4400 + ')', '"\\777"', '"\\8"', '0x' + 'f' * 3000])
                elif r < 0.4:
                    s = ''.join(rng.choice(ALPHABET) for _ in range(rng.randint(0, 40)))
                else:
                    s = gen_reader.join(g.sexpr(rng.randint(0, 4)))
                    for _ in range(rng.randint(0, 3)):
                        if not s:
                            break
                        p = rng.randrange(len(s))
                        m = rng.random()
                        s = s[:p] + s[p + 1:] if m < 0.35 else s[:p] + rng.choice(ALPHABET) + s[p:] if m < 0.7 else s[:p] + rng.choice(ALPHABET) + s[p + 1:] if m < 0.9 else s[:p]
                yield {'k': 'fuzz', 's': s if len(s) > 1000 else s[:200]}
            elif k == 2:
                tok, v = g.int_tok()
                pos = rng.choice(['top', 'list', 'quote', 'offset', 'slice', 'slice2', 'nested'])
                yield {'k': 'lit', 'tok': tok, 'v': v, 'pos': pos}
            elif k == 3 and i % 64 == 3:
                yield {'k': 'bool', 'tok': rng.choice(['#t', '#f', 'true', 'false']), 'pos': rng.choice(['top', 'list', 'quote', 'offset', 'slice', 'nested'])}
            elif k == 3 and i % 64 == 11:
                # what a text denotes does not depend on what was read or evaluated before
                a, b = gen_reader.join(g.sexpr(rng.randint(0, 2))), gen_reader.join(g.sexpr(rng.randint(0, 2)))
                lit, _v = g.int_tok()
                yield {'k': 'reread', 's': rng.choice([f'(when #t {lit})', f'(unless #f {lit} {a})', f'(when {a} {b})', f'(list (when #t {lit}) (unless #f 2))',
                                                      f'(cond [#f 1] [else {lit}])', f"(for/list [e9 '(1 2)] (+ e9 {lit}))", f'(do (inc v9) {a})',
                                                      f'(let ([v9 {lit}]) (when v9 (inc v9)))', f'(+ {lit} 1)', f"'({lit} {a})"])}
            elif k == 3 and i % 64 == 27:
                # float literals: digits, a point, any number of fraction digits (also none), optional sign
                tok = rng.choice(['', '-', '+']) + str(rng.randrange(0, 2000)) + '.' + rng.choice(['', '', '0', '5', '25', '125', '0625', '500'])
                yield {'k': 'flit', 'tok': tok, 'pos': rng.choice(['top', 'list', 'quote', 'nested'])}
            elif k == 3 and i % 64 == 19:
                tok, v = g.int_tok()
                yield {'k': 'evaltop', 'tok': rng.choice([tok, '0', '0x0', '0b000', '#f', '#t', '""', '"s"', 'false', '0.0', '1.5'])}
            elif k == 3:
                s = rng.choice(gen_reader.STRINGS) if rng.random() < 0.5 else ''.join(rng.choice('ab "\\\\\n\t;()ntr09%\'üµ') for _ in range(rng.randint(0, 12)))
                s2 = rng.choice(gen_reader.STRINGS) if rng.random() < 0.5 else ''.join(rng.choice('ab "\\\\;c') for _ in range(rng.randint(0, 4)))
                yield {'k': 'str', 'chars': s, 'chars2': s2}
            elif k in (4, 5):
                yield {'k': 'layout', 'toks': g.sexpr(rng.randint(1, 4)), 'seed': rng.randrange(1 << 30)}
            elif k == 6:
                s = gen_reader.join(g.sexpr(rng.randint(0, 3)))
                yield {'k': 'prefix', 's': s, 'junk': rng.choice([' )', ' a', ')', ' 1', ' "x"', ']', ' (', "'", ' @1', ' ; c\n b'])}
            else:
                yield {'k': 'shebang', 'toks': [g.sexpr(2) for _ in range(rng.randint(1, 3))], 'seed': rng.randrange(1 << 30)}

    def steps(self, case):
        if case['k'] in ('shebang', 'reread'):
            return None
        return [('read', t) for t in self.texts(case)]

    def texts(self, case):
        k = case['k']
        if k == 'fuzz':
            return [case['s']]
        if k == 'bool':
            t = case['tok']
            return [{'top': t, 'list': f'(a {t} b)', 'quote': f"'{t}", 'offset': f'a@{t}', 'slice': f'a[{t}]',
                     'nested': f"(f '(1 ({t})) `(x ,{t}))"}[case['pos']]]
        if k == 'evaltop':
            return [case['tok']]
        if k == 'flit':
            t = case['tok']
            return [{'top': t, 'list': f'(a {t} b)', 'quote': f"'{t}", 'nested': f"(f '(1 ({t})) `(x ,{t}))"}[case['pos']]]
        if k == 'lit':
            t = case['tok']
            return [{'top': t, 'list': f'(a {t} b)', 'quote': f"'{t}", 'offset': f'a@{t}', 'slice': f'a[{t}]', 'slice2': f'a[7:{t}]',
                     'nested': f"(f '(1 ({t})) `(x ,{t}))"}[case['pos']]]
        if k == 'str':
            # ... and two literals on one line, the second followed by a comment that contains a quote character
            # (the third text keeps a TAB character of the string as it is instead of writing the escape, behind some indentation)
            return [gen_reader.esc(case['chars']), '(a ' + gen_reader.esc(case['chars']) + ')',
                    '   (f ' + gen_reader.esc_rawtab(case['chars']) + ' ' + gen_reader.esc(case.get('chars2', 'c')) + ') ; "trailing']
        if k == 'layout':
            return [gen_reader.join(case['toks']), gen_reader.join(case['toks'], random.Random(case['seed'])),
                    ' \n' + gen_reader.join(case['toks'], random.Random(case['seed'] + 1)) + (' ; trailing comment' if case['seed'] % 3 else ' ;')]
        if k == 'prefix':
            return [case['s'], case['s'] + case['junk']]
        return []

    def oracle(self, case, iobs):
        k = case['k']
        I = lambda v: ('I', v)          # noqa: E731
        if k == 'shebang' and case['seed'] % 7 == 0:
            for t in ('', ' ', '\n', '; only a comment'):
                r = read_many(t)
                if r[0] == 'other':
                    return {'what': 'reader raised an exception other than the documented parse error', 'text': t, 'exception': r[1], 'entry': 'read_wal_sexprs'}
        if k == 'reread':
            from wal.reader import read_wal_sexpr
            from wal.ast_defs import WList
            t = case['s']
            first = read_one(t)
            if first[0] == 'other':
                return {'what': 'reader raised an exception other than the documented parse error', 'text': t, 'exception': first[1]}
            if first[0] != 'ok':
                return None
            w = impl.fresh()
            try:
                w.eval_str(t)
            except BaseException:  # noqa: BLE001
                pass
            second = read_one(t)
            if second != first:
                return {'what': 'the same text reads as a different expression after it has been evaluated once', 'text': t,
                        'first_read': first, 'read_after_evaluation': second}
            tree = read_wal_sexpr(t)
            if isinstance(tree, (list, WList)) and len(tree) > 0:
                try:
                    tree[0] = 'edited by the caller'
                except BaseException:  # noqa: BLE001
                    pass
            third = read_one(t)
            if third != first:
                return {'what': 'the same text reads as a different expression after a caller edited the tree of an earlier read', 'text': t,
                        'first_read': first, 'later_read': third}
            return None
        if k == 'shebang':
            body = '\n'.join(gen_reader.join(t, random.Random(case['seed'] + i)) for i, t in enumerate(case['toks']))
            a, b = read_many(body), read_many('#!/usr/bin/env wal\n' + body)
            if a[0] == 'other' or b[0] == 'other':
                return {'what': 'reader raised an exception other than the parse error', 'text': body, 'got': [a, b]}
            if a != b:
                return {'what': 'the shebang line changed what is read', 'text': body, 'without': a, 'with': b}
            return None
        res = [(t, read_one(t)) for t in self.texts(case)] if iobs is None else list(zip(self.texts(case), iobs))
        for t, r in res:
            if r[0] == 'other':
                return {'what': 'reader raised an exception other than the documented parse error', 'text': t, 'exception': r[1]}
        if k == 'evaltop':
            # a literal standing alone at top level evaluates to the value it denotes (also when that value is zero, empty or false)
            t, r = res[0]
            if r[0] == 'ok':
                w = impl.fresh()
                try:
                    got = wire.canon(w.eval_str(t))
                except BaseException as e:  # noqa: BLE001
                    got = ('raised', type(e).__name__)
                if got != r[1]:
                    return {'what': 'a literal at top level does not evaluate to the value it denotes', 'text': t, 'read': r[1], 'evaluated': got}
            return None
        if k == 'bool':
            t, r = res[0]
            B = ('B', case['tok'] in ('#t', 'true'))
            want = {'top': B, 'list': ('L', True, (('Y', 'a', None), B, ('Y', 'b', None))), 'quote': ('L', True, (('O', 'quote'), B)),
                    'offset': ('L', True, (('O', 'reval'), ('Y', 'a', None), B)), 'slice': ('L', True, (('O', 'slice'), ('Y', 'a', None), B)),
                    'nested': ('L', True, (('Y', 'f', None), ('L', True, (('O', 'quote'), ('L', True, (I(1), ('L', True, (B,)))))),
                                           ('L', True, (('O', 'quasiquote'), ('L', True, (('Y', 'x', None), ('U', B)))))))}[case['pos']]
            if r != ('ok', want):
                return {'what': 'boolean literal does not denote its value in this position', 'text': t, 'got': r, 'want': want}
            return None
        if k == 'flit':
            t, r = res[0]
            Fv = ('F', wire.fbits(float(case['tok'])))
            want = {'top': Fv, 'list': ('L', True, (('Y', 'a', None), Fv, ('Y', 'b', None))), 'quote': ('L', True, (('O', 'quote'), Fv)),
                    'nested': ('L', True, (('Y', 'f', None), ('L', True, (('O', 'quote'), ('L', True, (I(1), ('L', True, (Fv,)))))),
                                           ('L', True, (('O', 'quasiquote'), ('L', True, (('Y', 'x', None), ('U', Fv)))))))}[case['pos']]
            if r != ('ok', want):
                return {'what': 'float literal does not denote its value in this position', 'text': t, 'got': r, 'want': want}
            return None
        if k == 'lit':
            t, r = res[0]
            v = case['v']
            want = {'top': I(v), 'list': ('L', True, (('Y', 'a', None), I(v), ('Y', 'b', None))), 'quote': ('L', True, (('O', 'quote'), I(v))),
                    'offset': ('L', True, (('O', 'reval'), ('Y', 'a', None), I(v))), 'slice': ('L', True, (('O', 'slice'), ('Y', 'a', None), I(v))),
                    'slice2': ('L', True, (('O', 'slice'), ('Y', 'a', None), I(7), I(v))),
                    'nested': ('L', True, (('Y', 'f', None), ('L', True, (('O', 'quote'), ('L', True, (I(1), ('L', True, (I(v),)))))),
                                           ('L', True, (('O', 'quasiquote'), ('L', True, (('Y', 'x', None), ('U', I(v))))))))}[case['pos']]
            if r != ('ok', want):
                return {'what': 'integer literal does not denote its value in this position', 'text': t, 'got': r, 'want': want}
        elif k == 'str':
            (t1, r1), (t2, r2), (t3, r3) = res
            if r3 != ('ok', ('L', True, (('Y', 'f', None), ('S', case['chars']), ('S', case.get('chars2', 'c'))))):
                return {'what': 'two string literals on one line do not denote their characters', 'text': t3, 'got': r3,
                        'want': [case['chars'], case.get('chars2', 'c')]}
            if r1 != ('ok', ('S', case['chars'])):
                return {'what': 'string literal does not denote the characters given by its escape sequences', 'text': t1, 'got': r1, 'want': case['chars']}
            if r2 != ('ok', ('L', True, (('Y', 'a', None), ('S', case['chars'])))):
                return {'what': 'string literal inside a list differs', 'text': t2, 'got': r2}
        elif k == 'layout':
            base = res[0][1]
            for t, r in res[1:]:
                if r != base:
                    return {'what': 'whitespace / comment layout changed the expression that is read', 'plain': res[0][0], 'plain_result': base,
                            'laid_out': t, 'result': r}
        elif k == 'prefix':
            (t1, r1), (t2, r2) = res
            if r1[0] == 'ok' and r2[0] == 'ok' and not case['junk'].lstrip().startswith(';'):
                # both accepted: the longer text must be a different, complete expression (never the prefix silently)
                if r2 == r1:
                    return {'what': 'a single-expression read consumed only a prefix of the input', 'text': t2, 'result': r2}
        return None

    def nontrivial(self, case, iobs):
        return case['k'] != 'fuzz' or len(case['s']) > 3

    def classify(self, case):
        return case['k'] + (':' + case['pos'] if 'pos' in case else '')


CHECK = C10()
