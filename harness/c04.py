"""C04 — scans (find, find/g, whenever, count) are pointwise, complete, position-neutral."""
import random

from . import framework, gen_trace, gen_expr


def truthy(c):
    k = c[0]
    if k == 'N':
        return False
    if k == 'B':
        return c[1]
    if k == 'I':
        return c[1] != 0
    if k == 'S':
        return c[1] != ''
    if k == 'L':
        return len(c[2]) > 0
    if k == 'F':
        return c[1] not in (0, 1 << 63)
    return True


_TS = None


class C04(framework.PropertyCheck):
    pid = 'C04'
    theorem_coverage = True
    quick_cases = 300
    thorough_cases = 6000
    rule = ('random conditions of the trace-reading fragment (incl. @, x/z-valued signals, scoped/grouped references, virtual signals, user '
            'functions; in 30 % of the cases also a user variable named like a binder of a library macro template) and bodies that print INDEX, accumulate into a variable and step inside a timeframe; every start index of generated '
            'traces (N<=7); one trace for find/count, one or two (different lengths, different start positions) for find/g and whenever; the '
            'condition is evaluated independently at every visited position by explicit stepping; non-trivial = condition truthy at some but '
            'not all visited positions')
    assumptions = ['conditions avoid arithmetic on x-valued signals; a condition that raises ends the case on both sides',
                   'bodies are index-neutral (print, accumulate, timeframe)']

    def cases(self, rng, tier, n):
        for case_no in range(n):
            ntr = 1 if rng.random() < 0.6 else 2
            lens = [rng.randint(1, 7) for _ in range(ntr)]
            if ntr == 2 and lens[0] == lens[1]:
                lens[1] = lens[1] % 7 + 1
            if ntr == 2 and rng.random() < 0.5:
                lens.sort()           # the first-loaded trace ends first
            tids = ['t0', 'tB'][:ntr]
            g = gen_expr.ExprGen(rng, tids if ntr == 2 else None, n_max=max(lens))
            c = g.boolean(rng.randint(0, 3)) if rng.random() < 0.8 else g.num(2)
            starts = [[rng.randrange(l) for l in lens] for _ in range(2)]
            if tier == 'thorough' and ntr == 1:
                starts = [[i] for i in range(lens[0])]
            case = {'tids': tids, 'lens': lens, 'seeds': [rng.randrange(1 << 30) for _ in tids], 'c': c, 'starts': starts,
                    'body': rng.choice(['print', 'acc', 'timeframe', 'value'])}
            if ntr == 1 and rng.random() < 0.2:
                # an offset inside an offset: near the end the outer position exists while the inner one does not
                sig = rng.choice(['top.clk', 'top.cnt', 'top.d_valid'])
                j, k2 = rng.choice([(1, 1), (1, 2), (2, 1), (-1, -1), (1, -1)])
                case['c'] = rng.choice([f'(! (reval (reval {sig} {j}) {k2}))', f'(= (reval (reval {sig} {j}) {k2}) #f)',
                                        f'(|| (reval (! (reval {sig} {j})) {k2}) {c})'])
            if rng.random() < 0.3:
                case['limit'] = rng.randint(1, 2)
            if ntr == 1 and rng.random() < 0.2:
                case['pad'] = rng.randint(1, 3)       # the file is longer; the trace has been trimmed to this length before the scans
            if rng.random() < 0.4:
                # the condition also reads a user variable; its name is drawn from the names the library's macro templates bind
                # (count, find and whenever must treat the condition as the caller wrote it)
                global _TS
                if _TS is None:
                    from .c15 import template_symbols
                    _TS = sorted(set(template_symbols()) - {'acc', 'v', 'w', 'rd', 'isclk', 'k'}) or ['n']
                v = _TS[case_no % len(_TS)]          # every name in turn
                sig = ('top.cnt' if ntr == 1 else f'{tids[0]}^top.cnt')
                case['uservar'] = [v, rng.randint(1, 4)]
                case['c'] = f'(|| (= {sig} {v}) (&& (> {v} 1) {c}))'
            yield case

    def _goto(self, case, pos):
        if len(case['tids']) == 1:
            return [f'(step (- {pos[0]} INDEX))']
        return [f'(step "{t}" (- {p} {t}^INDEX))' for t, p in zip(case['tids'], pos)]

    def _idx(self, case):
        return 'INDEX' if len(case['tids']) == 1 else ' '.join(f'{t}^INDEX' for t in case['tids'])

    def _plan(self, case):
        steps = []
        for tid, n, s in zip(case['tids'], case['lens'], case['seeds']):
            vf, _den = gen_trace.simple_vcd(random.Random(s), n + case.get('pad', 0), sigs=gen_expr.SIGS)
            steps.append(('loadvcd', tid, gen_trace.render(vf)))
        single = len(case['tids']) == 1
        if case.get('pad'):
            steps.append(('eval', 'eorg', f"(trim-trace 't0 {case['lens'][0] - 1})"))
        for d in (gen_expr.PRELUDE_SINGLE if single else gen_expr.prelude_multi(case['tids'])):
            steps.append(('eval', 'eorg', d))
        steps.append(('eval', 'eorg', '(define acc 0)'))
        if case.get('uservar'):
            steps.append(('eval', 'eorg', f'(define {case["uservar"][0]} {case["uservar"][1]})'))
        c = case['c']
        idx = self._idx(case)
        plan = []
        for pos in case['starts']:
            span = min(l - p for l, p in zip(case['lens'], pos))
            # truth table by explicit positioning
            tt = []
            for d in range(span):
                for g in self._goto(case, [p + d for p in pos]):
                    steps.append(('eval', 'eorg', g))
                tt.append(len(steps))
                steps.append(('eval', 'eorg', f'(list {c})'))
            for g in self._goto(case, pos):
                steps.append(('eval', 'eorg', g))
            entry = {'pos': pos, 'span': span, 'tt': tt}
            if single:
                entry['find'] = len(steps)
                steps.append(('eval', 'eorg', f'(list (find {c}) (count {c}) {idx})'))
            entry['findg'] = len(steps)
            steps.append(('eval', 'eorg', f'(list (find/g {c}) {idx})'))
            entry['whenever'] = len(steps)
            b = case['body']
            if b == 'print':
                body = f'(print {idx}) 7'
            elif b == 'acc':
                body = '(set [acc (+ acc 1)]) (print "hit") acc'
            elif b == 'timeframe' and single:
                body = '(timeframe (step 2) (print INDEX)) INDEX'
            else:
                body = f'(list {idx})'
            entry['body'] = body
            steps.append(('eval', 'eorg', f'(list (whenever {c} {body}) {idx} acc)'))
            if case.get('limit'):
                # the condition reads a variable the body changes: condition and body alternate, position by position
                entry['limited'] = len(steps)
                steps.append(('eval', 'eorg', f'(do (define lim{len(plan)} 0) (whenever (&& (< lim{len(plan)} {case["limit"]}) {c}) '
                                              f'(set [lim{len(plan)} (+ lim{len(plan)} 1)]) (print "L" {idx})) (list lim{len(plan)} {idx}))'))
            plan.append(entry)
        return steps, plan

    def steps(self, case):
        return self._plan(case)[0]

    def oracle(self, case, iobs):
        steps, plan = self._plan(case)
        single = len(case['tids']) == 1
        ntr = len(case['tids'])
        acc = 0
        for en in plan:
            pos = en['pos']
            need = en['whenever']
            if need >= len(iobs):
                if iobs and iobs[-1][0] in ('err', 'timeout'):
                    return None           # the condition (or a prelude form) raised: nothing is claimed
                return {'what': 'missing observations'}
            truth = []
            for si in en['tt']:
                o = iobs[si]
                if o[0] != 'ok':
                    return None
                truth.append(truthy(o[1][2][0]))
            hits = [d for d, t in enumerate(truth) if t]
            want_pos = tuple(('I', p) for p in pos)
            if single:
                o = iobs[en['find']]
                if o[0] != 'ok':
                    return {'what': 'find raised although the condition evaluates at every position', 'obs': o, 'c': case['c']}
                found, cnt, after = o[1][2][0], o[1][2][1], o[1][2][2:]
                want = ('L', False, tuple(('I', pos[0] + d) for d in hits))
                if found != want:
                    return {'what': 'find differs from the pointwise truth of the condition', 'c': case['c'], 'start': pos, 'got': found, 'want': want}
                if cnt != ('I', len(hits)):
                    return {'what': 'count is not the number of hits', 'c': case['c'], 'got': cnt, 'want': len(hits)}
                if after != want_pos:
                    return {'what': 'find/count moved the trace', 'after': after, 'want': want_pos}
            o = iobs[en['findg']]
            if o[0] != 'ok':
                return {'what': 'find/g raised', 'obs': o, 'c': case['c']}
            found, after = o[1][2][0], o[1][2][1:]
            if single:
                want = ('L', False, tuple(('I', pos[0] + d) for d in hits))
            else:
                want = ('L', False, tuple(('A', tuple((t, ('I', p + d)) for t, p in zip(case['tids'], pos))) for d in hits))
            if found != want:
                return {'what': 'find/g differs from the lock-step truth of the condition', 'c': case['c'], 'start': pos, 'got': found, 'want': want}
            if after != want_pos:
                return {'what': 'find/g moved a trace', 'after': after, 'want': want_pos}
            o = iobs[en['whenever']]
            if o[0] != 'ok':
                return {'what': 'whenever raised', 'obs': o, 'c': case['c'], 'body': en['body']}
            res, after, accv = o[1][2][0], o[1][2][1:1 + ntr], o[1][2][1 + ntr]
            out = o[2]
            b = case['body']
            if b == 'print':
                want_out = ''.join(''.join(str(p + d) for p in pos) + '\n' for d in hits)
                want_res = ('I', 7) if hits else ('N',)
            elif b == 'acc':
                want_out = 'hit\n' * len(hits)
                acc += len(hits)
                want_res = ('I', acc) if hits else ('N',)
            elif b == 'timeframe' and single:
                mx = case['lens'][0] - 1
                want_out = ''.join(f'{pos[0] + d + 2 if pos[0] + d + 2 <= mx else pos[0] + d}\n' for d in hits)
                want_res = ('I', pos[0] + hits[-1]) if hits else ('N',)
            else:
                want_out = ''
                want_res = ('L', True, tuple(('I', p + hits[-1]) for p in pos)) if hits else ('N',)
            if out != want_out:
                return {'what': 'whenever: body not evaluated exactly once per hit, in order', 'c': case['c'], 'body': en['body'], 'stdout': out, 'want': want_out}
            if res != want_res:
                return {'what': 'whenever: value is not the last body value', 'c': case['c'], 'body': en['body'], 'got': res, 'want': want_res}
            if after != want_pos:
                return {'what': 'whenever moved a trace', 'after': after, 'want': want_pos}
            if accv != ('I', acc):
                return {'what': 'accumulator differs', 'got': accv, 'want': acc}
            if 'limited' in en:
                if en['limited'] >= len(iobs):
                    return {'what': 'missing observations'}
                o = iobs[en['limited']]
                lh = hits[:case['limit']]
                want_out = ''.join('L' + ''.join(str(p + d) for p in pos) + '\n' for d in lh)
                want_val = ('L', True, (('I', len(lh)),) + want_pos)
                if o[0] != 'ok' or o[2] != want_out or o[1] != want_val:
                    return {'what': 'whenever: a condition that reads what the body changes must see the change from the next position on',
                            'c': case['c'], 'limit': case['limit'], 'got': o, 'want': [want_val, want_out]}
        return None

    def nontrivial(self, case, iobs):
        steps, plan = self._plan(case)
        for en in plan:
            tr = []
            for si in en['tt']:
                if si < len(iobs) and iobs[si][0] == 'ok':
                    tr.append(truthy(iobs[si][1][2][0]))
            if True in tr and False in tr:
                return True
        return False

    def classify(self, case):
        return f'{len(case["tids"])}trace,{case["body"]}'


CHECK = C04()
