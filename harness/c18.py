"""C18 — CSV trace fidelity."""
import random

from . import framework, gen_trace
from .c01 import qs, _v


class C18(framework.PropertyCheck):
    pid = 'C18'
    quick_cases = 300
    thorough_cases = 15000
    rule = ("generated logic-analyser CSV texts: 'Time [s]' column at any position, 1-6 further columns (names with spaces, [n], (n), [h:l], "
            "two-digit indices), 1-12 rows, 0-9 fractional digits (incl. a trailing dot), cells over {0,1,x, multi-bit binary strings up to 70 bits}, "
            'optional trailing newline; every (column,row) pair is read; thorough adds the exhaustive tiny space (<=2 columns, <=2 rows, every time '
            'position, 0-3 fraction digits); non-trivial = time column not first, a bracketed/spaced name, or a fractional time')
    assumptions = ["row delimiter is a line end as the text layer reports it ('\\n'; a sixth of the files are written with CR LF and the model is given the text as open().read() returns it) and the cell delimiter ','; file I/O is exercised on the implementation side only"]

    def cases(self, rng, tier, n):
        for k in range(n):
            c = {'cf': gen_trace.gen_csv(rng), 'nl': rng.random() < 0.5}
            if k % 5 == 3:
                c['unload_after'] = True        # an id that is not loaded is "unloaded" while the capture is loaded: nothing changes
            if k % 6 == 3:
                c['crlf'] = True         # an export written on another platform: lines end in CR LF (the file is opened as text)
            if k % 5 == 4:
                c['history'] = True      # another capture has been loaded before and unloaded again
            if k % 5 == 2:
                c['failed_first'] = ['missing', 'ext'][k % 2]
            if k % 5 == 1:
                c['unload_first'] = True        # an id that was never loaded has been "unloaded" before     # an attempt to load a file that does not exist / is of no known kind came first
            yield c
        if tier == 'thorough':
            import itertools
            names = ['a', 'b c', 'd[3]', 'e[1:0]']
            for nc in (1, 2):
                for cols in itertools.permutations(names, nc):
                    for tpos in range(nc + 1):
                        for nd in range(0, 4):
                            for nr in (1, 2):
                                header = list(cols[:tpos]) + ['Time [s]'] + list(cols[tpos:])
                                rows = []
                                for r in range(nr):
                                    frac = ('%09d' % (123456789 * (r + 1) % 10 ** 9))[:nd]
                                    ttxt = str(r) + ('.' + frac if nd else '')
                                    cells = [('1' if (r + k) % 2 else '0') if k == 0 else 'x1'[(r + k) % 2] * (k + 1) for k in range(nc)]
                                    rows.append({'cells': cells[:tpos] + [ttxt] + cells[tpos:],
                                                 'tns': r * 10 ** 9 + (int(frac) * 10 ** (9 - nd) if nd else 0)})
                                yield {'cf': {'header': header, 'rows': rows, 'tpos': tpos}, 'nl': False}

    def steps(self, case):
        cf = case['cf']
        den = gen_trace.denote_csv(cf)
        text = gen_trace.render_csv(cf) + ('\n' if case['nl'] else '')
        if case.get('crlf'):
            text = text.replace('\n', '\r\n')
        steps = [('loadcsv', 't0', text), ('eval', 'eorg', '(list SIGNALS MAX-INDEX INDEX)')]
        if case.get('history'):
            steps = [('loadcsv', 'zz', 'Time [s],other\n0.5,1\n0.75,0\n1.5,1\n'), ('eval', 'eorg', '(list other MAX-INDEX TS)'), steps[0], ('unload', 'zz'), steps[1]]
        if case.get('unload_after') and not case.get('history'):
            steps = [steps[0], ('unload', 'nosuch9'), ('unload', 'nosuch9')] + steps[1:]
        if case.get('failed_first'):
            steps = [('loadfail', 'q9', case['failed_first'])] + steps
        if case.get('unload_first'):
            steps = [('unload', 'nosuch9')] + steps
        q = '(list INDEX TS ' + ' '.join(f'(get {qs(n)})' for n in den['signals']) + ')'
        for _ in den['timestamps']:
            steps.append(('eval', 'eorg', q))
            steps.append(('eval', 'eorg', '(step)'))
        return steps

    def oracle(self, case, iobs):
        den = gen_trace.denote_csv(case['cf'])
        names = den['signals']
        n = len(den['timestamps'])
        if case.get('failed_first') or case.get('unload_first'):
            iobs = iobs[1:]
        if case.get('unload_after') and not case.get('history'):
            iobs = iobs[0:1] + iobs[3:]
        if case.get('history'):
            if len(iobs) < 4 or iobs[0] != ('ok',) or iobs[3] != ('ok',):
                return {'what': 'loading / unloading the other capture failed', 'obs': iobs[:4]}
            iobs = iobs[2:3] + iobs[4:]
        if not iobs or iobs[0] != ('ok',):
            return {'what': 'CSV rejected', 'obs': iobs[:1]}
        want0 = ('L', True, (('L', False, tuple(('S', s) for s in names)), ('I', n - 1), ('I', 0)))
        if len(iobs) < 2 or iobs[1][0] != 'ok' or iobs[1][1] != want0:
            return {'what': 'SIGNALS / MAX-INDEX differ', 'got': iobs[1:2], 'want': want0}
        k = 2
        for i in range(n):
            want = ('L', True, (('I', i), ('I', den['timestamps'][i])) + tuple(_v(den['values'][s][i]) for s in names))
            if k >= len(iobs) or iobs[k][0] != 'ok' or iobs[k][1] != want:
                return {'what': 'row differs from the file', 'row': i, 'got': iobs[k] if k < len(iobs) else None, 'want': want,
                        'header': case['cf']['header'], 'cells': case['cf']['rows'][i]['cells']}
            k += 2
        return None

    def nontrivial(self, case, iobs):
        cf = case['cf']
        return cf['tpos'] != 0 or any(c in h for h in cf['header'] if h != 'Time [s]' for c in ' [(') or \
            any('.' in r['cells'][cf['tpos']] for r in cf['rows'])

    def classify(self, case):
        cf = case['cf']
        return f'cols{len(cf["header"]) - 1},tpos{"first" if cf["tpos"] == 0 else "last" if cf["tpos"] == len(cf["header"]) - 1 else "mid"}'


CHECK = C18()
