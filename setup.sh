#!/bin/sh
# Build the framework from files on disk only (offline): regenerate Wal/Gen from /repo, build library + driver.
set -e
cd "$(dirname "$0")"
/venv/bin/python tools/gen_lean.py
cd lean
lake build 2>&1 | tail -5
