'''C11 demo M: what the REPL echoes for an entered expression reads back as the value of
that expression - for every kind of value, also 0, false, the empty string and ().'''
import io
import os
import sys
import tempfile
from contextlib import redirect_stdout

# the REPL keeps its history below $HOME/.wal; give it a private one
home = tempfile.mkdtemp(prefix='c11m')
os.makedirs(os.path.join(home, '.wal'), exist_ok=True)
os.environ['HOME'] = home

from wal.core import Wal                      # pylint: disable=C0413
from wal.repl import WalRepl                  # pylint: disable=C0413
from wal.reader import read_wal_sexpr         # pylint: disable=C0413
from wal.ast_defs import WList, Symbol        # pylint: disable=C0413


def plain(expr):
    if isinstance(expr, (WList, list)):
        return [plain(x) for x in expr]
    if isinstance(expr, Symbol):
        return ('S', expr.name)
    return (type(expr).__name__, expr)


def echo(repl, text):
    '''enter text at the REPL (as cmdloop does: precmd, then onecmd), return what it prints'''
    out = io.StringIO()
    with redirect_stdout(out):
        repl.onecmd(repl.precmd(text))
    return out.getvalue()


# entered text -> the value the echo must read back as
cases = [
    ('(+ 1 2)', 3),
    ("'(a b 1)", [Symbol('a'), Symbol('b'), 1]),
    ('"text"', 'text'),
    ("'sym", Symbol('sym')),
    ('(= 1 1)', True),
    ('1.5', 1.5),
    ('-7', -7),
    ('(- 2 2)', 0),
    ('0', 0),
    ('(= 1 2)', False),
    ('false', False),
    ('""', ''),
    ("'()", []),
    ('(list)', []),
    ('0.0', 0.0),
    ("'(0 () \"\")", [0, [], '']),
]

repl = WalRepl(Wal())
bad = []
for text, expected in cases:
    printed = echo(repl, text)
    if not printed.strip():
        bad.append(f'{text}: the REPL echoed nothing, expected the value {expected!r}')
        continue
    try:
        back = read_wal_sexpr(printed.strip())
    except Exception as e:  # pylint: disable=W0703
        bad.append(f'{text}: echo {printed!r} can not be read ({e})')
        continue
    if plain(back) != plain(expected):
        bad.append(f'{text}: echo {printed!r} reads back as {plain(back)}, expected {plain(expected)}')

if bad:
    print('\n'.join(bad))
    sys.exit(1)

print('ok')
sys.exit(0)
