#!/usr/bin/env python
'''C13 demo A: a virtual signal must equal its body at every index, also
after the trace was resampled with sample-at (no stale cached values).'''
import os
import signal
import sys
import tempfile

signal.alarm(120)  # hard timeout

from wal.core import Wal

A = [3, 7, 1, 9, 4, 4, 12, 0, 5, 8, 2, 6]
B = [1, 2, 6, 3, 9, 5, 0, 7, 7, 4, 8, 1]


def make_vcd(path):
    lines = ['$timescale 1ns $end',
             '$scope module tb $end',
             '$var wire 8 ! a [7:0] $end',
             '$var wire 8 " b [7:0] $end',
             '$upscope $end',
             '$enddefinitions $end']
    for i, (a, b) in enumerate(zip(A, B)):
        lines += [f'#{i * 5}', f'b{a:08b} !', f'b{b:08b} "']
    with open(path, 'w', encoding='utf-8') as f:
        f.write('\n'.join(lines) + '\n')


def main():
    tmp = tempfile.mkdtemp()
    path = os.path.join(tmp, 'trace.vcd')
    make_vcd(path)

    w = Wal()
    w.load(path, 't')
    ev = w.eval_str
    errors = []

    BODY = '(+ tb.a (* 2 tb.b))'
    ev(f'(defsig v {BODY})')

    if 'v' not in ev('SIGNALS'):
        errors.append('v is not listed in SIGNALS')

    # 1. read v at every index of the original sampling (fills any cache)
    expected = [a + 2 * b for a, b in zip(A, B)]
    got = []
    for i in range(len(A)):
        got.append(ev('v'))
        w.step(1)
    ev('(step (- 0 INDEX))')
    if got != expected:
        errors.append(f'before resampling: v = {got}, expected {expected}')

    # 2. resample: keep only every second original sample, shifted by one
    points = [1, 3, 5, 7, 9, 11]
    ev("(sample-at '(" + ' '.join(map(str, points)) + '))')
    expected = [A[p] + 2 * B[p] for p in points]

    # 3. v must still be equal to its body at every (new) index
    via_body = []
    via_v = []
    ts = []
    for i in range(len(points)):
        assert ev('INDEX') == i
        ts.append(ev('TS'))
        via_body.append(ev(BODY))
        via_v.append(ev('v'))
        w.step(1)
    ev('(step (- 0 INDEX))')

    if via_body != expected:
        errors.append(f'after resampling: body = {via_body}, expected {expected} (demo broken?)')
    if via_v != via_body:
        errors.append(f'after resampling (TS={ts}): v = {via_v} but body = {via_body}')

    # 4. the same through @, find and count
    at_v = [ev(f'v@{k}') for k in range(len(points))]
    at_b = [ev(f'{BODY}@{k}') for k in range(len(points))]
    if at_v != at_b:
        errors.append(f'after resampling: v@k = {at_v} but body@k = {at_b}')

    for cond in ['(> {} 13)', '(< {} 12)']:
        f_v = ev('(find ' + cond.format('v') + ')')
        f_b = ev('(find ' + cond.format(BODY) + ')')
        if f_v != f_b:
            errors.append(f'after resampling: find {cond.format("v")} = {f_v} but over body = {f_b}')
        c_v = ev('(count ' + cond.format('v') + ')')
        c_b = ev('(count ' + cond.format(BODY) + ')')
        if c_v != c_b:
            errors.append(f'after resampling: count {cond.format("v")} = {c_v} but over body = {c_b}')

    if errors:
        print('C13 VIOLATED:')
        for err in errors:
            print('  -', err)
        return 1

    print('ok: virtual signal equals its body before and after sample-at')
    return 0


if __name__ == '__main__':
    sys.exit(main())
