'''C06 / mutation T: calling a function with the wrong number of arguments raises an error
and nothing else happens: the operands of the rejected call are not evaluated, so no output
appears, no global changes and no shared counter advances.'''
import io
import sys
import contextlib

from wal.core import Wal
from wal.ast_defs import WalEvalError


def run(wal, prog):
    buf = io.StringIO()
    try:
        with contextlib.redirect_stdout(buf):
            res = wal.eval_str(prog)
        return ('value', res, buf.getvalue())
    except WalEvalError:
        return ('error', None, buf.getvalue().split('\n>>>>>')[0])


def main():
    bad = []

    # 1. assignment to a global inside an operand of a call with one operand too many
    w = Wal()
    run(w, '(define g 0)')
    run(w, '(define f (fn [x] (+ x 1)))')
    got = run(w, '(f (set [g (+ g 1)]) 2)')
    after = run(w, 'g')
    if got[0] != 'error' or after[:2] != ('value', 0):
        bad.append(f'(f (set [g (+ g 1)]) 2) on a unary f: expected an error and g = 0, got {got[0]} and g = {after[1]}')

    # 2. printing operands, one operand too few
    w = Wal()
    run(w, '(define h (fn [x y z] x))')
    got = run(w, '(h (do (print "first") 1) (do (print "second") 2))')
    if got != ('error', None, ''):
        bad.append(f'(h (print ..) (print ..)) on a ternary h: expected an error with no output, got {got}')

    # 3. a counter shared between closures must not advance
    w = Wal()
    run(w, '(define mk (fn [] (let ([n 0]) (list (fn [] (set [n (+ n 1)])) (fn [] n)))))')
    run(w, '(define c (mk))')
    run(w, '(define tick (first c))')
    run(w, '(define peek (second c))')
    run(w, '(tick)')
    got = run(w, '(peek (tick))')
    after = run(w, '(peek)')
    if got[0] != 'error' or after[:2] != ('value', 1):
        bad.append(f'(peek (tick)) on a nullary peek: expected an error and the counter at 1, got {got[0]} and {after[1]}')

    # 4. sanity: correct calls evaluate operands once, left to right
    w = Wal()
    run(w, '(define k (fn [a b] (- a b)))')
    got = run(w, '(k (do (print "a") 5) (do (print "b") 3))')
    if got != ('value', 2, 'a\nb\n'):
        bad.append(f'sanity: {got}')

    if bad:
        print('VIOLATION:')
        for line in bad:
            print('  ' + line)
        sys.exit(1)
    print('ok')
    sys.exit(0)


main()
