'''C16 demo B: one application of the front-end passes must be enough.

A program whose macros expand *directly* into another macro call (std `cadr`
-> `(car (cdr xs))`, or a user macro expanding to `(unless ...)`) must behave
the same when evaluated form by form through the library API (passes run once),
when run as a source file with `python -m wal` (passes run twice) and when
compiled with walc and run as .wo.  Also expand must be idempotent.

exit 0: all paths agree and expand(expand(x)) == expand(x)
exit 1: disagreement (details printed)
'''
import copy
import io
import os
import subprocess
import sys
import tempfile
from contextlib import redirect_stdout

from wal.core import Wal
from wal.reader import read_wal_sexprs
from wal.passes import expand
from wal.util import wal_str

PY = sys.executable
TIMEOUT = 60

PROGRAMS = {
    'std-cadr': '''
(define xs (list 1 2 3))
(print (cadr xs))
(print (+ (cadr xs) 40))
''',
    'user-macro-to-std-macro': '''
(define hits 0)
(defmacro unless-zero (v body) `(unless (= ,v 0) ,body))
(unless-zero 5 (print "nonzero"))
(unless-zero 0 (print "never"))
(defmacro bump (v) `(inc ,v))
(bump hits)
(bump hits)
(print hits)
''',
}

SINGLE_FORM = "(print (cadr '(7 8 9)))"


def run_api(src):
    '''evaluate the forms one by one through the library API'''
    w = Wal()
    buf = io.StringIO()
    status = 0
    with redirect_stdout(buf):
        try:
            for form in read_wal_sexprs(src):
                w.eval(form)
        except SystemExit as e:
            status = e.code or 0
        except Exception:  # pylint: disable=W0703
            status = 70
    return buf.getvalue(), status


def cli(args, cwd):
    p = subprocess.run([PY, '-m', 'wal', *args], stdin=subprocess.DEVNULL, capture_output=True,
                       text=True, timeout=TIMEOUT, cwd=cwd, env=dict(os.environ))
    return p.stdout, p.returncode


def run_paths(src, tmp, with_c=False):
    res = {'api': run_api(src)}
    path = os.path.join(tmp, 'prog.wal')
    with open(path, 'w', encoding='utf8') as f:
        f.write(src)
    res['file'] = cli([path], tmp)
    wo = os.path.join(tmp, 'prog.wo')
    p = subprocess.run([PY, '-c', 'from wal.walc import run; run()', path, '-o', wo],
                       stdin=subprocess.DEVNULL, capture_output=True, text=True, timeout=TIMEOUT, cwd=tmp)
    if p.returncode != 0:
        res['wo'] = ('walc failed: ' + p.stderr[-200:], p.returncode)
    else:
        res['wo'] = cli([wo], tmp)
    if with_c:
        res['-c'] = cli(['-c', src.strip()], tmp)
    return res


def idempotent(form_src, setup=()):
    '''expand(expand(x)) must be the same tree as expand(x)'''
    w = Wal()
    for s in setup:
        w.eval_str(s)
    ctx = w.eval_context
    form = read_wal_sexprs(form_src)[0]
    once = expand(ctx, copy.deepcopy(form), parent=ctx.global_environment)
    twice = expand(ctx, copy.deepcopy(once), parent=ctx.global_environment)
    return wal_str(once), wal_str(twice)


def main():
    bad = False
    with tempfile.TemporaryDirectory() as tmp:
        for name, src in PROGRAMS.items():
            res = run_paths(src, tmp)
            if len(set(res.values())) != 1:
                bad = True
                print(f'[{name}] execution paths disagree:')
                for k, (out, rc) in res.items():
                    print(f'  {k:5} rc={rc} out={out!r}')
        res = run_paths(SINGLE_FORM, tmp, with_c=True)
        if len(set(res.values())) != 1:
            bad = True
            print('[single-form] execution paths disagree:')
            for k, (out, rc) in res.items():
                print(f'  {k:5} rc={rc} out={out!r}')

    for form, setup in [("(print (cadr xs))", ["(define xs '(1 2 3))"]),
                        ("(when-pos 3 (print 1))", ["(defmacro when-pos (v body) `(when (> ,v 0) ,body))"])]:
        once, twice = idempotent(form, setup)
        if once != twice:
            bad = True
            print(f'expand is not idempotent on {form}:\n  once : {once}\n  twice: {twice}')

    if bad:
        print('C16 VIOLATED')
        return 1
    print('ok: API, file, -c and .wo agree; expand is idempotent')
    return 0


if __name__ == '__main__':
    sys.exit(main())
