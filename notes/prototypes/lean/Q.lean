inductive Sx where
 | int (i : Int) | bool (b : Bool) | str (s : String) | sym (n : String) (st : Option Nat) | op (o : String) | list (xs : List Sx) | unq (e : Sx) | unqs (e : Sx)

def lookup (env : List (String × Sx)) (n : String) : Option Sx :=
  match env with
  | [] => none
  | (k, v) :: r => if k = n then some v else lookup r n

mutual
def qq (env : List (String × Sx)) : Sx → Option Sx
  | .list xs => (qqList env xs).map .list
  | e => some e
def qqList (env : List (String × Sx)) : List Sx → Option (List Sx)
  | [] => some []
  | .unq (.sym n _) :: r => do let v ← lookup env n; let r' ← qqList env r; pure (v :: r')
  | .unqs (.sym n _) :: r => do
      let v ← lookup env n
      let r' ← qqList env r
      match v with
      | .list vs => pure (vs ++ r')
      | _ => none
  | x :: r => do let x' ← qq env x; let r' ← qqList env r; pure (x' :: r')
end

-- `(&& (= ,expr 0) (= (reval ,expr 1) 1))
def risingT : Sx := .list [.op "&&", .list [.op "=", .unq (.sym "expr" none), .int 0], .list [.op "=", .list [.op "reval", .unq (.sym "expr" none), .int 1], .int 1]]

theorem rising_expand (e : Sx) :
    qq [("expr", e)] risingT = some (.list [.op "&&", .list [.op "=", e, .int 0], .list [.op "=", .list [.op "reval", e, .int 1], .int 1]]) := by
  simp [risingT, qq, qqList, lookup]

-- `(if ,condition (do ,@body))
def whenT : Sx := .list [.op "if", .unq (.sym "condition" none), .list [.op "do", .unqs (.sym "body" none)]]
theorem when_expand (c : Sx) (body : List Sx) :
    qq [("condition", c), ("body", .list body)] whenT = some (.list [.op "if", c, .list (.op "do" :: body)]) := by
  simp [whenT, qq, qqList, lookup]
#print axioms when_expand
