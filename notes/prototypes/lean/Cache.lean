/-! Prototype for C13: the per-timestamp cache of a virtual signal never serves a value of another time point,
    over all histories of jumps, reads and resampling. -/
namespace C13

structure St where
  origTs : List Nat                 -- timestamps of the original trace (index = original sample)
  lookup : List Nat                 -- new index ↦ original index (identity before any sample-at)
  index : Nat
  cache : List (Nat × Int)          -- timestamp ↦ cached value

inductive Op where
  | jump (i : Nat)                  -- any navigation: step, @, scans … (lands on a valid index or stays)
  | read                            -- read the virtual signal
  | sample (L : List Nat)           -- sample-at (indices into the original trace, valid ones kept)

-- value of the body at an original sample (C13's hypothesis: the body is a function of trace data and position)
variable (f : Nat → Int)

def curOrig (s : St) : Option Nat := s.lookup[s.index]?
def curTs (s : St) : Option Nat := (curOrig s).bind (fun o => s.origTs[o]?)

def step (s : St) : Op → St × Option Int
  | .jump i => (if i < s.lookup.length then { s with index := i } else s, none)
  | .sample L =>
    let L' := L.filter (· < s.origTs.length)
    ({ s with lookup := L', index := 0 }, none)
  | .read =>
    match curOrig s, curTs s with
    | some o, some ts =>
      match s.cache.lookup ts with
      | some v => (s, some v)
      | none => let v := f o; ({ s with cache := (ts, v) :: s.cache }, some v)
    | _, _ => (s, none)

def Inv (s : St) : Prop :=
  (∀ (i j ti tj : Nat), s.origTs[i]? = some ti → s.origTs[j]? = some tj → ti = tj → i = j) ∧   -- timestamps identify samples
  (∀ (ts : Nat) (v : Int), s.cache.lookup ts = some v → ∃ o : Nat, s.origTs[o]? = some ts ∧ v = f o)

theorem lookup_cons {ts ts' : Nat} {v v' : Int} {c : List (Nat × Int)}
    (h : ((ts', v') :: c).lookup ts = some v) : (ts = ts' ∧ v = v') ∨ c.lookup ts = some v := by
  by_cases e : (ts == ts') = true
  · simp [List.lookup, e] at h; exact Or.inl ⟨by simpa using e, h.symm⟩
  · have : (ts == ts') = false := by simpa using e
    simp [List.lookup, this] at h; exact Or.inr h

theorem step_inv (s : St) (op : Op) (h : Inv f s) : Inv f (step f s op).1 := by
  obtain ⟨hinj, hc⟩ := h
  cases op with
  | jump i => simp only [step]; split <;> exact ⟨hinj, hc⟩
  | sample L => exact ⟨hinj, hc⟩
  | read =>
    simp only [step]
    split
    · rename_i o ts ho hts
      split
      · exact ⟨hinj, hc⟩
      · refine ⟨hinj, ?_⟩
        intro ts' v hl
        rcases lookup_cons hl with ⟨rfl, rfl⟩ | h'
        · refine ⟨o, ?_, rfl⟩
          simp only [curTs, ho, Option.bind] at hts
          exact hts
        · exact hc ts' v h'
    · exact ⟨hinj, hc⟩

/-- whatever a read returns is the body's value at the current original sample -/
theorem read_correct (s : St) (h : Inv f s) (v : Int) (hr : (step f s .read).2 = some v) :
    ∃ o, curOrig s = some o ∧ v = f o := by
  obtain ⟨hinj, hc⟩ := h
  simp only [step] at hr
  split at hr
  · rename_i o ts ho hts
    refine ⟨o, ho, ?_⟩
    have hts' : s.origTs[o]? = some ts := by simpa [curTs, ho, Option.bind] using hts
    split at hr
    · rename_i w hw
      simp at hr; subst hr
      obtain ⟨o', ho', hv⟩ := hc ts w hw
      have := hinj o' o ts ts ho' hts' rfl
      subst this; exact hv
    · simp at hr; exact hr.symm
  · simp at hr

def run (s : St) : List Op → St
  | [] => s
  | op :: r => run (step f s op).1 r

/-- over every history -/
theorem run_inv (ops : List Op) : ∀ s, Inv f s → Inv f (run f s ops) := by
  induction ops with
  | nil => intro s h; exact h
  | cons op r ih => intro s h; exact ih _ (step_inv f s op h)

theorem read_after_any_history (s : St) (ops : List Op) (h : Inv f s) (v : Int)
    (hr : (step f (run f s ops) .read).2 = some v) :
    ∃ o, curOrig (run f s ops) = some o ∧ v = f o :=
  read_correct f _ (run_inv f ops s h) v hr

-- non-vacuity: strictly increasing timestamps, empty cache
example : Inv (fun o => (o : Int) + 1) { origTs := [0, 10, 20, 30], lookup := [0, 1, 2, 3], index := 0, cache := [] } := by
  refine ⟨?_, fun ts v h => by simp [List.lookup] at h⟩
  intro i j ti tj hi hj e
  match i, j with
  | 0, 0 | 1, 1 | 2, 2 | 3, 3 => rfl
  | 0, 1 | 0, 2 | 0, 3 | 1, 0 | 1, 2 | 1, 3 | 2, 0 | 2, 1 | 2, 3 | 3, 0 | 3, 1 | 3, 2 => simp at hi hj; omega
  | _ + 4, _ => simp at hi
  | 0, _ + 4 | 1, _ + 4 | 2, _ + 4 | 3, _ + 4 => simp at hj

end C13
