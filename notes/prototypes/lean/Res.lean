/-! Prototype for C07: resolved (hop `steps` frames) vs dynamic lookup on a heap of frames with closures and `set`.
    Frames bind exactly one name (let / fn parameter); no `define`, so key sets never change. -/
namespace R

inductive Tm where
  | int (i : Int)
  | var (x : String) (steps : Option Nat)
  | let_ (x : String) (e body : Tm)
  | fn (x : String) (body : Tm)
  | app (f a : Tm)
  | set (x : String) (steps : Option Nat) (e : Tm)
  | add (a b : Tm)
  | seq (a b : Tm)

inductive Val where
  | int (i : Int)
  | clo (env : Option Nat) (x : String) (body : Tm)

structure Frame where
  name : String
  val : Val
  parent : Option Nat

structure St where
  heap : List Frame
  env : Option Nat          -- none = empty top level

inductive Err where | fuel | unbound | type | badhop
abbrev Res := Except Err (Val × St)

/-- hop k parents -/
def hop (heap : List Frame) : Nat → Option Nat → Option (Option Nat)
  | 0, e => some e
  | k+1, some id => match heap[id]? with
    | some f => hop heap k f.parent
    | none => none
  | _+1, none => none

/-- dynamic walk: first frame on the chain holding x (fuel-bounded) -/
def find (heap : List Frame) (x : String) : Nat → Option Nat → Option Nat
  | 0, _ => none
  | _, none => none
  | fuel+1, some id => match heap[id]? with
    | some f => if f.name = x then some id else find heap x fuel f.parent
    | none => none

def startOf (m : Bool) (heap : List Frame) (env : Option Nat) (steps : Option Nat) : Option (Option Nat) :=
  match m, steps with
  | true, some k => hop heap k env
  | _, _ => some env

def setVal (heap : List Frame) (id : Nat) (v : Val) : List Frame :=
  match heap[id]? with
  | some f => heap.set id { f with val := v }
  | none => heap

def eval (m : Bool) : Nat → St → Tm → Res
  | 0, _, _ => .error .fuel
  | n+1, st, e =>
    match e with
    | .int i => .ok (.int i, st)
    | .var x steps =>
      match startOf m st.heap st.env steps with
      | none => .error .badhop
      | some s => match find st.heap x st.heap.length s with
        | some id => match st.heap[id]? with
          | some f => .ok (f.val, st)
          | none => .error .unbound
        | none => .error .unbound
    | .let_ x e body => do
      let (v, st1) ← eval m n st e
      let id := st1.heap.length
      let (r, st2) ← eval m n { heap := st1.heap ++ [{ name := x, val := v, parent := st1.env }], env := some id } body
      pure (r, { st2 with env := st1.env })
    | .fn x body => .ok (.clo st.env x body, st)
    | .app f a => do
      let (fv, st1) ← eval m n st f
      match fv with
      | .clo cenv x body => do
        let (av, st2) ← eval m n st1 a
        let id := st2.heap.length
        let (r, st3) ← eval m n { heap := st2.heap ++ [{ name := x, val := av, parent := cenv }], env := some id } body
        pure (r, { st3 with env := st2.env })
      | _ => .error .type
    | .set x steps e => do
      let (v, st1) ← eval m n st e
      match startOf m st1.heap st1.env steps with
      | none => .error .badhop
      | some s => match find st1.heap x st1.heap.length s with
        | some id => pure (v, { st1 with heap := setVal st1.heap id v })
        | none => .error .unbound
    | .add a b => do
      let (av, st1) ← eval m n st a
      let (bv, st2) ← eval m n st1 b
      match av, bv with
      | .int x, .int y => pure (.int (x + y), st2)
      | _, _ => .error .type
    | .seq a b => do
      let (_, st1) ← eval m n st a
      eval m n st1 b


/-! ### chains -/

inductive Chain (heap : List Frame) : Option Nat → List String → Prop
  | nil : Chain heap none []
  | cons {id : Nat} {fr : Frame} {ns : List String} : heap[id]? = some fr → Chain heap fr.parent ns → Chain heap (some id) (fr.name :: ns)

@[reducible] def WFH (heap : List Frame) : Prop :=
  ∀ (id : Nat) (fr : Frame), heap[id]? = some fr → ∀ p, fr.parent = some p → p < id

theorem Chain.len_le {heap} (wf : WFH heap) : ∀ {env ns}, Chain heap env ns →
    ∀ id, env = some id → ns.length ≤ id + 1 := by
  intro env ns h
  induction h with
  | nil => intro id h; cases h
  | @cons id' fr ns hfr hch ih =>
    intro id hid
    cases hid
    cases hp : fr.parent with
    | none => rw [hp] at hch; cases hch; simp
    | some p =>
      have := ih p hp
      have hlt := wf id' fr hfr p hp
      simp; omega

theorem Chain.len_le_heap {heap} (wf : WFH heap) {env ns} (h : Chain heap env ns) : ns.length ≤ heap.length := by
  cases env with
  | none => cases h; simp
  | some id =>
    have := h.len_le wf id rfl
    cases h with
    | cons hfr _ =>
      have : id < heap.length := by
        rcases List.getElem?_eq_some_iff.mp hfr with ⟨hlt, _⟩; exact hlt
      omega

/-- fuel irrelevance of the dynamic walk -/
theorem find_fuel {heap x} : ∀ {env ns}, Chain heap env ns → ∀ f1 f2, ns.length ≤ f1 → ns.length ≤ f2 →
    find heap x f1 env = find heap x f2 env := by
  intro env ns h
  induction h with
  | nil => intro f1 f2 _ _; cases f1 <;> cases f2 <;> simp [find]
  | @cons id fr ns hfr hch ih =>
    intro f1 f2 h1 h2
    cases f1 with
    | zero => simp at h1
    | succ f1 =>
      cases f2 with
      | zero => simp at h2
      | succ f2 =>
        simp only [find, hfr]
        split
        · rfl
        · exact ih f1 f2 (by simp at h1; omega) (by simp at h2; omega)

/-- hopping over k frames that do not bind x does not change what the walk finds -/
theorem find_hop {heap x} : ∀ {env ns}, Chain heap env ns → ∀ k s fuel,
    (∀ j, j < k → ns[j]? ≠ some x) → k ≤ ns.length → hop heap k env = some s →
    find heap x (fuel + k) env = find heap x fuel s := by
  intro env ns h
  induction h with
  | nil =>
    intro k s fuel _ hk hs
    have : k = 0 := by simpa using hk
    subst this; simp [hop] at hs; subst hs; rfl
  | @cons id fr ns hfr hch ih =>
    intro k s fuel hno hk hs
    cases k with
    | zero => simp [hop] at hs; subst hs; rfl
    | succ k =>
      simp only [hop, hfr] at hs
      have hne : fr.name ≠ x := by
        have := hno 0 (by omega); simpa using this
      have : fuel + (k+1) = (fuel + k) + 1 := by omega
      rw [this]
      simp only [find, hfr, hne, if_false]
      exact ih k s fuel (fun j hj => by have := hno (j+1) (by omega); simpa using this) (by simp at hk; omega) hs

/-- a hop of k ≤ length always succeeds and lands on a chain -/
theorem hop_chain {heap} : ∀ {env ns}, Chain heap env ns → ∀ k, k ≤ ns.length →
    ∃ s, hop heap k env = some s ∧ Chain heap s (ns.drop k) := by
  intro env ns h
  induction h with
  | nil => intro k hk; have : k = 0 := by simpa using hk
           subst this; exact ⟨none, rfl, Chain.nil⟩
  | @cons id fr ns hfr hch ih =>
    intro k hk
    cases k with
    | zero => exact ⟨some id, rfl, Chain.cons hfr hch⟩
    | succ k =>
      obtain ⟨s, hs, hc⟩ := ih k (by simp at hk; omega)
      exact ⟨s, by simp [hop, hfr, hs], by simpa using hc⟩


/-! ### static validity of annotations and the run-time invariant -/

def ValidVar (ns : List String) (x : String) : Option Nat → Prop
  | none => True
  | some k => ns[k]? = some x ∧ ∀ j, j < k → ns[j]? ≠ some x

inductive VA : List String → Tm → Prop
  | int {ns i} : VA ns (.int i)
  | var {ns x st} : ValidVar ns x st → VA ns (.var x st)
  | let_ {ns x e body} : VA ns e → VA (x :: ns) body → VA ns (.let_ x e body)
  | fn {ns x body} : VA (x :: ns) body → VA ns (.fn x body)
  | app {ns f a} : VA ns f → VA ns a → VA ns (.app f a)
  | set {ns x st e} : ValidVar ns x st → VA ns e → VA ns (.set x st e)
  | add {ns a b} : VA ns a → VA ns b → VA ns (.add a b)
  | seq {ns a b} : VA ns a → VA ns b → VA ns (.seq a b)

def ValOK (heap : List Frame) : Val → Prop
  | .int _ => True
  | .clo cenv x body => ∃ ns, Chain heap cenv ns ∧ VA (x :: ns) body

def HeapOK (heap : List Frame) : Prop :=
  WFH heap ∧ ∀ (id : Nat) (fr : Frame), heap[id]? = some fr → ValOK heap fr.val

/-- heap' keeps every frame's name and parent (values may change, frames may be added) -/
def Ext (heap heap' : List Frame) : Prop :=
  ∀ (id : Nat) (fr : Frame), heap[id]? = some fr → ∃ fr', heap'[id]? = some fr' ∧ fr'.name = fr.name ∧ fr'.parent = fr.parent

theorem Ext.refl (h : List Frame) : Ext h h := fun _ fr hfr => ⟨fr, hfr, rfl, rfl⟩
theorem Ext.trans {a b c} (h1 : Ext a b) (h2 : Ext b c) : Ext a c := by
  intro id fr hfr
  obtain ⟨fr', h', hn, hp⟩ := h1 id fr hfr
  obtain ⟨fr'', h'', hn', hp'⟩ := h2 id fr' h'
  exact ⟨fr'', h'', hn'.trans hn, hp'.trans hp⟩

theorem Chain.ext {heap heap'} (hx : Ext heap heap') : ∀ {env ns}, Chain heap env ns → Chain heap' env ns := by
  intro env ns h
  induction h with
  | nil => exact Chain.nil
  | @cons id fr ns hfr _ ih =>
    obtain ⟨fr', h', hn, hp⟩ := hx id fr hfr
    rw [← hn]
    exact Chain.cons h' (by rw [hp]; exact ih)

theorem ValOK.ext {heap heap'} (hx : Ext heap heap') {v} (h : ValOK heap v) : ValOK heap' v := by
  cases v with
  | int _ => trivial
  | clo cenv x body => obtain ⟨ns, hc, hv⟩ := h; exact ⟨ns, hc.ext hx, hv⟩

theorem start_eq {heap env ns x steps} (wf : WFH heap) (hc : Chain heap env ns) (hv : ValidVar ns x steps) :
    ∃ s, startOf true heap env steps = some s ∧
      find heap x heap.length s = find heap x heap.length env := by
  cases steps with
  | none => exact ⟨env, rfl, rfl⟩
  | some k =>
    obtain ⟨hk, hno⟩ := hv
    have hklt : k < ns.length := by
      rcases List.getElem?_eq_some_iff.mp hk with ⟨h, _⟩; exact h
    obtain ⟨s, hs, hcs⟩ := hop_chain hc k (by omega)
    refine ⟨s, by simp [startOf, hs], ?_⟩
    have hlen := hc.len_le_heap wf
    have h1 := find_hop (x := x) hc k s (heap.length - k) hno (by omega) hs
    have : heap.length - k + k = heap.length := by omega
    rw [this] at h1
    rw [h1]
    exact find_fuel hcs _ _ (by simp; omega) (by simp; omega)


theorem Chain.env_lt {heap env ns} (h : Chain heap env ns) : ∀ p, env = some p → p < heap.length := by
  intro p hp
  cases h with
  | nil => cases hp
  | cons hfr _ => cases hp; rcases List.getElem?_eq_some_iff.mp hfr with ⟨h, _⟩; exact h

theorem push_ext (heap : List Frame) (fr : Frame) : Ext heap (heap ++ [fr]) := by
  intro id f hf
  have hlt : id < heap.length := by rcases List.getElem?_eq_some_iff.mp hf with ⟨h, _⟩; exact h
  exact ⟨f, by rw [List.getElem?_append_left hlt]; exact hf, rfl, rfl⟩

theorem push_ok {heap env ns x v} (hok : HeapOK heap) (hc : Chain heap env ns) (hv : ValOK heap v) :
    HeapOK (heap ++ [{ name := x, val := v, parent := env }]) ∧
    Chain (heap ++ [{ name := x, val := v, parent := env }]) (some heap.length) (x :: ns) := by
  have hx := push_ext heap { name := x, val := v, parent := env }
  have hnew : (heap ++ [{ name := x, val := v, parent := env }])[heap.length]? = some { name := x, val := v, parent := env } := by
    simp
  refine ⟨⟨?_, ?_⟩, ?_⟩
  · intro id fr hfr p hp
    by_cases hlt : id < heap.length
    · rw [List.getElem?_append_left hlt] at hfr
      exact hok.1 id fr hfr p hp
    · have hid : id = heap.length := by
        rcases List.getElem?_eq_some_iff.mp hfr with ⟨h, _⟩; simp at h; omega
      subst hid
      rw [hnew] at hfr; cases hfr
      exact hc.env_lt p hp
  · intro id fr hfr
    by_cases hlt : id < heap.length
    · rw [List.getElem?_append_left hlt] at hfr
      exact (hok.2 id fr hfr).ext hx
    · have hid : id = heap.length := by
        rcases List.getElem?_eq_some_iff.mp hfr with ⟨h, _⟩; simp at h; omega
      subst hid
      rw [hnew] at hfr; cases hfr
      exact hv.ext hx
  · exact Chain.cons (fr := { name := x, val := v, parent := env }) hnew (hc.ext hx)

theorem setVal_ext (heap : List Frame) (id : Nat) (v : Val) : Ext heap (setVal heap id v) := by
  intro i fr hfr
  unfold setVal
  split
  · rename_i f hf
    by_cases hi : i = id
    · subst hi
      rw [hf] at hfr; cases hfr
      have hlt : i < heap.length := by rcases List.getElem?_eq_some_iff.mp hf with ⟨h, _⟩; exact h
      exact ⟨{ fr with val := v }, by simp [List.getElem?_set, hlt], rfl, rfl⟩
    · exact ⟨fr, by rw [List.getElem?_set_ne (Ne.symm hi)]; exact hfr, rfl, rfl⟩
  · exact ⟨fr, hfr, rfl, rfl⟩

theorem setVal_ok {heap id v} (hok : HeapOK heap) (hv : ValOK heap v) : HeapOK (setVal heap id v) := by
  have hx := setVal_ext heap id v
  refine ⟨?_, ?_⟩
  · intro i fr hfr p hp
    unfold setVal at hfr
    split at hfr
    · rename_i f hf
      by_cases hi : i = id
      · subst hi
        have hlt : i < heap.length := by rcases List.getElem?_eq_some_iff.mp hf with ⟨h, _⟩; exact h
        simp [List.getElem?_set, hlt] at hfr
        subst hfr
        exact hok.1 i f hf p hp
      · rw [List.getElem?_set_ne (Ne.symm hi)] at hfr
        exact hok.1 i fr hfr p hp
    · exact hok.1 i fr hfr p hp
  · intro i fr hfr
    unfold setVal at hfr
    split at hfr
    · rename_i f hf
      by_cases hi : i = id
      · subst hi
        have hlt : i < heap.length := by rcases List.getElem?_eq_some_iff.mp hf with ⟨h, _⟩; exact h
        simp [List.getElem?_set, hlt] at hfr
        subst hfr
        exact hv.ext hx
      · rw [List.getElem?_set_ne (Ne.symm hi)] at hfr
        exact (hok.2 i fr hfr).ext hx
    · exact (hok.2 i fr hfr).ext hx


def Post (st : St) (v : Val) (st' : St) : Prop :=
  HeapOK st'.heap ∧ Ext st.heap st'.heap ∧ st'.env = st.env ∧ ValOK st'.heap v

theorem main : ∀ (n : Nat) (st : St) (e : Tm) (ns : List String),
    HeapOK st.heap → Chain st.heap st.env ns → VA ns e →
    eval true n st e = eval false n st e ∧
    (∀ v st', eval false n st e = .ok (v, st') → Post st v st') := by
  intro n
  induction n with
  | zero => intro st e ns _ _ _; exact ⟨rfl, fun v st' h => by simp [eval] at h⟩
  | succ n ih =>
    intro st e ns hok hc hva
    cases hva with
    | int => exact ⟨rfl, fun v st' h => by
        simp [eval] at h; obtain ⟨rfl, rfl⟩ := h; exact ⟨hok, Ext.refl _, rfl, trivial⟩⟩
    | @var _ x steps hv =>
      obtain ⟨s, hs, hfind⟩ := start_eq hok.1 hc hv
      have hfalse : startOf false st.heap st.env steps = some st.env := by cases steps <;> rfl
      refine ⟨by simp only [eval, hs, hfalse, hfind], ?_⟩
      intro v st' h
      simp only [eval, hfalse] at h
      split at h
      · split at h
        · rename_i id _ fr hfr
          simp at h; obtain ⟨rfl, rfl⟩ := h
          exact ⟨hok, Ext.refl _, rfl, hok.2 _ _ hfr⟩
        · simp at h
      · simp at h
    | @fn _ x body hb =>
      exact ⟨rfl, fun v st' h => by
        simp [eval] at h; obtain ⟨rfl, rfl⟩ := h
        exact ⟨hok, Ext.refl _, rfl, ⟨ns, hc, hb⟩⟩⟩
    | @add _ a b ha hb =>
      obtain ⟨eqa, posta⟩ := ih st a ns hok hc ha
      simp only [eval, eqa]
      cases hra : eval false n st a with
      | error er => exact ⟨by first | rfl | trivial, fun v st' h => by simp [bind, Except.bind] at h⟩
      | ok r =>
        obtain ⟨av, st1⟩ := r
        obtain ⟨hok1, hx1, henv1, hv1⟩ := posta av st1 hra
        have hc1 : Chain st1.heap st1.env ns := by rw [henv1]; exact hc.ext hx1
        obtain ⟨eqb, postb⟩ := ih st1 b ns hok1 hc1 hb
        simp only [bind, Except.bind, eqb]
        refine ⟨by first | rfl | trivial, ?_⟩
        intro v st' h
        cases hrb : eval false n st1 b with
        | error er => simp [hrb] at h
        | ok r2 =>
          obtain ⟨bv, st2⟩ := r2
          obtain ⟨hok2, hx2, henv2, hv2⟩ := postb bv st2 hrb
          simp only [hrb] at h
          cases av <;> cases bv <;> simp [pure, Except.pure] at h
          obtain ⟨rfl, rfl⟩ := h
          exact ⟨hok2, hx1.trans hx2, henv2.trans henv1, trivial⟩
    | @seq _ a b ha hb =>
      obtain ⟨eqa, posta⟩ := ih st a ns hok hc ha
      simp only [eval, eqa]
      cases hra : eval false n st a with
      | error er => exact ⟨by first | rfl | trivial, fun v st' h => by simp [bind, Except.bind] at h⟩
      | ok r =>
        obtain ⟨av, st1⟩ := r
        obtain ⟨hok1, hx1, henv1, hv1⟩ := posta av st1 hra
        have hc1 : Chain st1.heap st1.env ns := by rw [henv1]; exact hc.ext hx1
        obtain ⟨eqb, postb⟩ := ih st1 b ns hok1 hc1 hb
        simp only [bind, Except.bind, eqb]
        refine ⟨by first | rfl | trivial, ?_⟩
        intro v st' h
        obtain ⟨hok2, hx2, henv2, hv2⟩ := postb v st' h
        exact ⟨hok2, hx1.trans hx2, henv2.trans henv1, hv2⟩
    | @set _ x steps e0 hv he =>
      obtain ⟨eqe, poste⟩ := ih st e0 ns hok hc he
      simp only [eval, eqe]
      cases hre : eval false n st e0 with
      | error er => exact ⟨by first | rfl | trivial, fun v st' h => by simp [bind, Except.bind] at h⟩
      | ok r =>
        obtain ⟨v1, st1⟩ := r
        obtain ⟨hok1, hx1, henv1, hv1⟩ := poste v1 st1 hre
        have hc1 : Chain st1.heap st1.env ns := by rw [henv1]; exact hc.ext hx1
        obtain ⟨s, hs, hfind⟩ := start_eq hok1.1 hc1 hv
        have hfalse : startOf false st1.heap st1.env steps = some st1.env := by cases steps <;> rfl
        simp only [bind, Except.bind, hs, hfalse, hfind]
        refine ⟨by first | rfl | trivial, ?_⟩
        intro v st' h
        split at h
        · rename_i id hid
          simp [pure, Except.pure] at h
          obtain ⟨rfl, rfl⟩ := h
          exact ⟨setVal_ok hok1 hv1, hx1.trans (setVal_ext _ _ _), henv1, hv1.ext (setVal_ext _ _ _)⟩
        · simp at h
    | @let_ _ x e0 body he hb =>
      obtain ⟨eqe, poste⟩ := ih st e0 ns hok hc he
      simp only [eval, eqe]
      cases hre : eval false n st e0 with
      | error er => exact ⟨by first | rfl | trivial, fun v st' h => by simp [bind, Except.bind] at h⟩
      | ok r =>
        obtain ⟨v1, st1⟩ := r
        obtain ⟨hok1, hx1, henv1, hv1⟩ := poste v1 st1 hre
        have hc1 : Chain st1.heap st1.env ns := by rw [henv1]; exact hc.ext hx1
        obtain ⟨hokp, hcp⟩ := push_ok (x := x) hok1 hc1 hv1
        obtain ⟨eqb, postb⟩ := ih { heap := st1.heap ++ [{ name := x, val := v1, parent := st1.env }], env := some st1.heap.length }
          body (x :: ns) hokp hcp hb
        simp only [bind, Except.bind, eqb]
        refine ⟨by first | rfl | trivial, ?_⟩
        intro v st' h
        split at h
        · simp at h
        · rename_i r2 hr2
          obtain ⟨rv, st2⟩ := r2
          obtain ⟨hok2, hx2, henv2, hv2⟩ := postb rv st2 hr2
          simp [pure, Except.pure] at h
          obtain ⟨rfl, rfl⟩ := h
          exact ⟨hok2, hx1.trans ((push_ext _ _).trans hx2), henv1, hv2⟩
    | @app _ f a hf ha =>
      obtain ⟨eqf, postf⟩ := ih st f ns hok hc hf
      simp only [eval, eqf]
      cases hrf : eval false n st f with
      | error er => exact ⟨by first | rfl | trivial, fun v st' h => by simp [bind, Except.bind] at h⟩
      | ok r =>
        obtain ⟨fv, st1⟩ := r
        obtain ⟨hok1, hx1, henv1, hv1⟩ := postf fv st1 hrf
        have hc1 : Chain st1.heap st1.env ns := by rw [henv1]; exact hc.ext hx1
        cases fv with
        | int i => exact ⟨by first | rfl | trivial, fun v st' h => by simp [bind, Except.bind] at h⟩
        | clo cenv x body =>
          obtain ⟨nsc, hcc, hvb⟩ := hv1
          obtain ⟨eqa, posta⟩ := ih st1 a ns hok1 hc1 ha
          simp only [bind, Except.bind, eqa]
          cases hra : eval false n st1 a with
          | error er => exact ⟨by first | rfl | trivial, fun v st' h => by simp at h⟩
          | ok r2 =>
            obtain ⟨av, st2⟩ := r2
            obtain ⟨hok2, hx2, henv2, hv2⟩ := posta av st2 hra
            have hcc2 : Chain st2.heap cenv nsc := hcc.ext hx2
            obtain ⟨hokp, hcp⟩ := push_ok (x := x) hok2 hcc2 hv2
            obtain ⟨eqb, postb⟩ := ih { heap := st2.heap ++ [{ name := x, val := av, parent := cenv }], env := some st2.heap.length }
              body (x :: nsc) hokp hcp hvb
            simp only [eqb]
            refine ⟨by first | rfl | trivial, ?_⟩
            intro v st' h
            split at h
            · simp at h
            · rename_i r3 hr3
              obtain ⟨rv, st3⟩ := r3
              obtain ⟨hok3, hx3, henv3, hv3⟩ := postb rv st3 hr3
              simp [pure, Except.pure] at h
              obtain ⟨rfl, rfl⟩ := h
              exact ⟨hok3, hx1.trans (hx2.trans ((push_ext _ _).trans hx3)), henv2.trans henv1, hv3⟩


/-! ### the static pass produces valid annotations -/

def firstIdx (x : String) : List String → Option Nat
  | [] => none
  | y :: r => if y = x then some 0 else (firstIdx x r).map (· + 1)

theorem firstIdx_valid (x : String) : ∀ (ns : List String), ValidVar ns x (firstIdx x ns) := by
  intro ns
  induction ns with
  | nil => simp [firstIdx, ValidVar]
  | cons y r ih =>
    simp only [firstIdx]
    split
    · rename_i h; subst h; exact ⟨by simp, fun j hj => by omega⟩
    · rename_i h
      cases hf : firstIdx x r with
      | none => simp [ValidVar]
      | some k =>
        rw [hf] at ih
        obtain ⟨hk, hno⟩ := ih
        refine ⟨by simpa using hk, ?_⟩
        intro j hj
        cases j with
        | zero => simpa using h
        | succ j => have := hno j (by simp at hj; omega); simpa using this

def resolve (ns : List String) : Tm → Tm
  | .int i => .int i
  | .var x _ => .var x (firstIdx x ns)
  | .let_ x e body => .let_ x (resolve ns e) (resolve (x :: ns) body)
  | .fn x body => .fn x (resolve (x :: ns) body)
  | .app f a => .app (resolve ns f) (resolve ns a)
  | .set x _ e => .set x (firstIdx x ns) (resolve ns e)
  | .add a b => .add (resolve ns a) (resolve ns b)
  | .seq a b => .seq (resolve ns a) (resolve ns b)

theorem resolve_valid : ∀ (e : Tm) (ns : List String), VA ns (resolve ns e) := by
  intro e
  induction e with
  | int i => intro ns; exact VA.int
  | var x s => intro ns; exact VA.var (firstIdx_valid x ns)
  | let_ x e body ihe ihb => intro ns; exact VA.let_ (ihe ns) (ihb (x :: ns))
  | fn x body ih => intro ns; exact VA.fn (ih (x :: ns))
  | app f a ihf iha => intro ns; exact VA.app (ihf ns) (iha ns)
  | set x s e ih => intro ns; exact VA.set (firstIdx_valid x ns) (ih ns)
  | add a b iha ihb => intro ns; exact VA.add (iha ns) (ihb ns)
  | seq a b iha ihb => intro ns; exact VA.seq (iha ns) (ihb ns)

/-- closed program from the empty top level: resolved lookup = dynamic lookup -/
theorem resolve_preserves (n : Nat) (e : Tm) :
    eval true n { heap := [], env := none } (resolve [] e) = eval false n { heap := [], env := none } (resolve [] e) :=
  (main n { heap := [], env := none } (resolve [] e) [] ⟨fun id fr h => by simp at h, fun id fr h => by simp at h⟩ Chain.nil (resolve_valid e [])).1

-- non-vacuity: a program where the assignment sits two frames below its binding
example : ∃ v st, eval true 20 { heap := [], env := none }
    (resolve [] (.let_ "x" (.int 1) (.seq (.app (.fn "y" (.let_ "z" (.int 2) (.set "x" none (.int 5)))) (.int 0)) (.var "x" none)))) = .ok (v, st)
    ∧ (match v with | .int i => i = 5 | _ => False) := by
  refine ⟨_, _, rfl, ?_⟩
  decide

end R
