import P.Basic
namespace W

/-! ## navigation -/
def Trace.Inv (t : Trace) : Prop := t.index ≤ t.maxIndex

theorem Trace.step_spec (t : Trace) (k : Int) :
    let r : Int := (t.index : Int) + k
    (0 ≤ r ∧ r ≤ t.maxIndex → (t.step k).2 = true ∧ ((t.step k).1.index : Int) = r) ∧
    (¬ (0 ≤ r ∧ r ≤ t.maxIndex) → (t.step k).2 = false ∧ (t.step k).1 = t) := by
  intro r
  unfold Trace.step
  constructor
  · intro h
    have : ¬ (r < 0 ∨ r > (t.maxIndex : Int)) := by omega
    simp only [r] at this
    simp [this]; omega
  · intro h
    have : (r < 0 ∨ r > (t.maxIndex : Int)) := by omega
    simp only [r] at this
    simp [this]

theorem Trace.step_inv (t : Trace) (k : Int) (h : t.Inv) : (t.step k).1.Inv := by
  unfold Trace.step Trace.Inv at *
  split
  · exact h
  · simp; omega

theorem indices_restore (ts : List Trace) (saved : List Nat) (h : ts.length = saved.length) :
    indices (restore ts saved) = saved := by
  induction ts generalizing saved with
  | nil => cases saved <;> simp_all [restore, indices]
  | cons t ts ih =>
    cases saved with
    | nil => simp at h
    | cons i is =>
      simp [restore, indices] at *
      exact ih is h

/-- `rec` evaluates `c` without touching the state, for every state. -/
def Neutral (rec : St → Sx → Res) (c : Sx) : Prop :=
  ∀ st, ∃ v, rec st c = .ok (v, st)

/-- value of c at a given index of the single trace (spec side) -/
noncomputable def valAt (rec : St → Sx → Res) (c : Sx) (st : St) (t : Trace) (rest : List Trace) (i : Nat) : Bool :=
  match rec { st with traces := { t with index := i } :: rest } c with
  | .ok (v, _) => truthy v
  | .error _ => false

theorem findLoop_spec (rec : St → Sx → Res) (c : Sx) (hc : Neutral rec c) :
    ∀ (k : Nat) (st : St) (t : Trace) (rest : List Trace) (acc : List Nat),
      st.traces = t :: rest → t.index + k = t.maxIndex + 1 →
      ∃ st', findLoop rec c k st acc = .ok (acc ++ (List.range' t.index k).filter (valAt rec c st t rest), st')
        ∧ st'.out = st.out ∧ (st'.traces.map (·.tid)) = (st.traces.map (·.tid)) ∧ st'.traces.length = st.traces.length := by
  intro k
  induction k with
  | zero =>
    intro st t rest acc h1 h2
    exact ⟨st, by simp [findLoop], rfl, rfl, rfl⟩
  | succ k ih =>
    intro st t rest acc h1 h2
    obtain ⟨v, hv⟩ := hc st
    have hst : st = { st with traces := { t with index := t.index } :: rest } := by
      cases st; simp at h1; simp [h1]
    have hval : valAt rec c st t rest t.index = truthy v := by
      unfold valAt; rw [← hst, hv]
    simp only [findLoop, hv, bind, Except.bind, h1]
    by_cases hk : k = 0
    · subst hk
      have hstep : (t.step 1) = (t, false) := by
        unfold Trace.step; simp; omega
      simp only [hstep, List.range', List.filter, hval]
      refine ⟨st, ?_, rfl, rfl, rfl⟩
      split <;> simp
    · have hstep : (t.step 1) = ({ t with index := t.index + 1 }, true) := by
        unfold Trace.step
        have : ¬ ((t.index : Int) + 1 < 0 ∨ (t.index : Int) + 1 > (t.maxIndex : Int)) := by omega
        simp [this]; omega
      simp only [hstep]
      have := ih { st with traces := { t with index := t.index + 1 } :: rest } { t with index := t.index + 1 } rest
        (if truthy v then acc ++ [t.index] else acc) rfl (by simp; omega)
      obtain ⟨st', h1', h2', h3', h4'⟩ := this
      refine ⟨st', ?_, ?_, ?_, ?_⟩
      · simp only [if_true] at *
        rw [h1']
        have hvv : valAt rec c { st with traces := { t with index := t.index + 1 } :: rest } { t with index := t.index + 1 } rest
            = valAt rec c st t rest := by
          funext i; unfold valAt; rfl
        simp only [List.range', List.filter, hval, hvv]
        split <;> simp
      · simpa using h2'
      · simpa [h1] using h3'
      · simpa [h1] using h4'

end W
