import P.Basic
namespace W

/-! ## navigation -/
def Trace.Inv (t : Trace) : Prop := t.index ≤ t.maxIndex

theorem Trace.step_in (t : Trace) (k : Int) (h : 0 ≤ (t.index : Int) + k ∧ (t.index : Int) + k ≤ t.maxIndex) :
    t.step k = ({ t with index := ((t.index : Int) + k).toNat }, true) := by
  have : ¬ ((t.index : Int) + k < 0 ∨ (t.index : Int) + k > (t.maxIndex : Int)) := by omega
  simp [Trace.step, this]

theorem Trace.step_out (t : Trace) (k : Int) (h : ¬ (0 ≤ (t.index : Int) + k ∧ (t.index : Int) + k ≤ t.maxIndex)) :
    t.step k = (t, false) := by
  have : ((t.index : Int) + k < 0 ∨ (t.index : Int) + k > (t.maxIndex : Int)) := by omega
  simp [Trace.step, this]

theorem Trace.step_inv (t : Trace) (k : Int) (h : t.Inv) : (t.step k).1.Inv := by
  by_cases hin : 0 ≤ (t.index : Int) + k ∧ (t.index : Int) + k ≤ t.maxIndex
  · rw [Trace.step_in t k hin]; simp only [Trace.Inv]; omega
  · rw [Trace.step_out t k hin]; exact h

theorem indices_restore (ts : List Trace) (saved : List Nat) (h : ts.length = saved.length) :
    indices (restore ts saved) = saved := by
  induction ts generalizing saved with
  | nil => cases saved <;> simp_all [restore, indices]
  | cons t ts ih =>
    cases saved with
    | nil => simp at h
    | cons i is =>
      simp [restore, indices] at *
      exact ih is h

/-- `rec` evaluates `c` without touching the state, for every state. -/
def Neutral (rec : St → Sx → Res) (c : Sx) : Prop :=
  ∀ st, ∃ v, rec st c = .ok (v, st)

/-- truth of c with the first trace positioned at index i (spec side) -/
noncomputable def valAt (rec : St → Sx → Res) (c : Sx) (out : List String) (t : Trace) (rest : List Trace) (i : Nat) : Bool :=
  match rec { traces := { t with index := i } :: rest, out := out } c with
  | .ok (v, _) => truthy v
  | .error _ => false

/-- C04 core: the find loop collects exactly the positions from the current index to the end at which the
    condition is truthy, in ascending order, and leaves the output untouched. -/
theorem findLoop_spec (rec : St → Sx → Res) (c : Sx) (hc : Neutral rec c) :
    ∀ (k : Nat) (t : Trace) (rest : List Trace) (out : List String) (acc : List Nat),
      t.index + k = t.maxIndex + 1 →
      ∃ st', findLoop rec c k { traces := t :: rest, out := out } acc =
          .ok (acc ++ (List.range' t.index k).filter (valAt rec c out t rest), st') ∧ st'.out = out := by
  intro k
  induction k with
  | zero => intro t rest out acc _; exact ⟨{ traces := t :: rest, out := out }, by simp [findLoop], rfl⟩
  | succ k ih =>
    intro t rest out acc h2
    obtain ⟨v, hv⟩ := hc { traces := t :: rest, out := out }
    have hval : valAt rec c out t rest t.index = truthy v := by
      unfold valAt; rw [hv]
    have hvv : valAt rec c out { t with index := t.index + 1 } rest = valAt rec c out t rest := rfl
    simp only [findLoop, hv, bind, Except.bind]
    by_cases hk : k = 0
    · subst hk
      rw [Trace.step_out t 1 (by omega)]
      refine ⟨{ traces := t :: rest, out := out }, ?_, rfl⟩
      simp only [List.range', List.filter, hval]
      cases truthy v <;> simp
    · rw [Trace.step_in t 1 (by omega)]
      have hidx : ((t.index : Int) + 1).toNat = t.index + 1 := by omega
      simp only [hidx]
      obtain ⟨st', h1', h2'⟩ := ih { t with index := t.index + 1 } rest out
        (if truthy v then acc ++ [t.index] else acc) (by simp; omega)
      refine ⟨st', ?_, h2'⟩
      rw [h1', hvv]
      simp only [List.range', List.filter, hval]
      cases truthy v <;> simp

end W
