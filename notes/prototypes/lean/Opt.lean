import P.Basic
import P.Mono
namespace W

/-! Prototype of C08: a three-rule optimiser and its preservation theorem on the mini evaluator -/

def isLit : Sx → Bool
  | .int _ | .bool _ | .str _ => true
  | _ => false

def allInts : List Sx → Option (List Int)
  | [] => some []
  | .int i :: r => (allInts r).map (i :: ·)
  | _ => none

mutual
def optimize : Sx → Sx
  | .list (.op o :: args) =>
    match o with
    | .quote => .list (.op .quote :: args)
    | .iff =>
      match optList args with
      | [c, a, b] => if isLit c then (if truthy c then a else b) else .list [.op .iff, c, a, b]
      | args' => .list (.op .iff :: args')
    | .doo =>
      match optList args with
      | [a] => a
      | args' => .list (.op .doo :: args')
    | .add =>
      match allInts (optList args) with
      | some is => .int (is.foldl (· + ·) 0)
      | none => .list (.op .add :: optList args)
    | o => .list (.op o :: optList args)
  | e => e
def optList : List Sx → List Sx
  | [] => []
  | e :: r => optimize e :: optList r
end

/-- `rec` is closed under optimisation of its argument -/
def OptClosed (rec : St → Sx → Res) : Prop := ∀ st e r, rec st e = .ok r → rec st (optimize e) = .ok r

theorem evalList_opt {rec} (h : OptClosed rec) :
    ∀ args st r, evalList rec st args = .ok r → evalList rec st (optList args) = .ok r := by
  intro args
  induction args with
  | nil => intro st r hr; simpa [optList] using hr
  | cons a as ih =>
    intro st r hr
    simp only [evalList, optList, bind_ok] at hr ⊢
    obtain ⟨⟨v, st1⟩, h1, ⟨vs, st2⟩, h2, h3⟩ := hr
    exact ⟨(v, st1), h _ _ _ h1, (vs, st2), ih _ _ h2, h3⟩

theorem findLoop_opt {rec} (h : OptClosed rec) (c : Sx) :
    ∀ k st acc r, findLoop rec c k st acc = .ok r → findLoop rec (optimize c) k st acc = .ok r := by
  intro k
  induction k with
  | zero => intro st acc r hr; simpa [findLoop] using hr
  | succ k ih =>
    intro st acc r hr
    simp only [findLoop, bind_ok] at hr ⊢
    obtain ⟨⟨v, st1⟩, h1, h2⟩ := hr
    refine ⟨(v, st1), h _ _ _ h1, ?_⟩
    revert h2
    simp only
    split
    · exact id
    · split
      · exact ih _ _ _
      · exact id

/-- literals evaluate to themselves at any positive fuel -/
theorem eval_lit {n st c r} (hl : isLit c = true) (h : eval n st c = .ok r) : r = (c, st) := by
  cases n with
  | zero => simp [eval] at h
  | succ n =>
    cases c <;> simp [isLit] at hl <;> simp [eval, evalStep] at h <;> exact h.symm

theorem eval_lit_ok {n st c} (hl : isLit c = true) : eval (n+1) st c = .ok (c, st) := by
  cases c <;> simp [isLit] at hl <;> simp [eval, evalStep]


theorem allInts_spec : ∀ (xs : List Sx) (is : List Int), allInts xs = some is → xs = is.map Sx.int := by
  intro xs
  induction xs with
  | nil => intro is h; simp [allInts] at h; subst h; rfl
  | cons x xs ih =>
    intro is h
    cases x <;> simp [allInts] at h
    obtain ⟨is', h1, rfl⟩ := h
    simp [ih is' h1]

theorem evalList_ints {rec : St → Sx → Res} (hrec : ∀ st (i : Int), rec st (.int i) = .ok (.int i, st)) :
    ∀ (is : List Int) st, evalList rec st (is.map Sx.int) = .ok (is.map Sx.int, st) := by
  intro is
  induction is with
  | nil => intro st; rfl
  | cons i is ih => intro st; simp [evalList, hrec, ih, bind, Except.bind]; rfl

theorem foldlM_ints (is : List Int) (a : Int) :
    (is.map Sx.int).foldlM (m := Except Err) (fun acc v => match acc, v with
          | .int a, .int b => pure (Sx.int (a+b))
          | _, _ => throw Err.unsupported) (Sx.int a) = .ok (Sx.int (is.foldl (· + ·) a)) := by
  induction is generalizing a with
  | nil => rfl
  | cons i is ih =>
    simp only [List.map_cons, List.foldlM_cons, bind, Except.bind, pure, Except.pure]
    exact ih (a + i)

theorem opt_step {n : Nat} (ih : OptClosed (eval n)) : OptClosed (eval (n+1)) := by
  intro st e r hr
  have mono := eval_mono n
  match e with
  | .list (.op o :: args) =>
    cases o with
    | quote => simpa [optimize] using hr
    | iff =>
      simp only [optimize]
      -- evaluation forces exactly three arguments
      match args, hr with
      | [c, a, b], hr =>
        simp only [optList]
        simp only [eval, evalStep, bind_ok] at hr
        obtain ⟨⟨cv, st1⟩, h1, h2⟩ := hr
        have h1' := ih _ _ _ h1
        by_cases hl : isLit (optimize c) = true
        · simp only [hl, if_true]
          have := eval_lit hl h1'
          simp only [Prod.mk.injEq] at this
          obtain ⟨rfl, rfl⟩ := this
          split
          · rename_i ht; simp only [ht, if_true] at h2; exact mono _ _ _ (ih _ _ _ h2)
          · rename_i ht; simp only [ht] at h2; exact mono _ _ _ (ih _ _ _ h2)
        · simp only [hl]
          show eval (n+1) st (.list [.op .iff, optimize c, optimize a, optimize b]) = .ok r
          simp only [eval, evalStep, bind_ok]
          refine ⟨(cv, st1), h1', ?_⟩
          revert h2; simp only; split
          · exact ih _ _ _
          · exact ih _ _ _
      | [], hr => simp [eval, evalStep] at hr
      | [_], hr => simp [eval, evalStep] at hr
      | [_, _], hr => simp [eval, evalStep] at hr
      | _ :: _ :: _ :: _ :: _, hr => simp [eval, evalStep] at hr
    | doo =>
      simp only [optimize]
      simp only [eval, evalStep, bind_ok] at hr
      obtain ⟨⟨vs, st1⟩, h1, h2⟩ := hr
      have h1' := evalList_opt ih _ _ _ h1
      split
      · rename_i a heq
        rw [heq] at h1'
        simp only [evalList, bind_ok] at h1'
        obtain ⟨⟨v, st2⟩, h3, ⟨vs', st3⟩, h4, h5⟩ := h1'
        simp only [pure, Except.pure, Except.ok.injEq, Prod.mk.injEq] at h4 h5
        obtain ⟨rfl, rfl⟩ := h4
        obtain ⟨rfl, rfl⟩ := h5
        simp only [pure, Except.pure, Except.ok.injEq] at h2
        subst h2
        exact mono _ _ _ h3
      · simp only [eval, evalStep, bind_ok]
        exact ⟨(vs, st1), h1', h2⟩
    | add =>
      simp only [optimize]
      simp only [eval, evalStep, bind_ok] at hr
      obtain ⟨⟨vs, st1⟩, h1, r0, h2, h3⟩ := hr
      have h1' := evalList_opt ih _ _ _ h1
      split
      · rename_i is heq
        have := allInts_spec _ _ heq
        rw [this] at h1'
        cases n with
        | zero =>
          cases args with
          | nil =>
            simp only [evalList, Except.ok.injEq, Prod.mk.injEq] at h1
            obtain ⟨rfl, rfl⟩ := h1
            simp only [optList] at this
            have his : is = [] := by
              cases is with
              | nil => rfl
              | cons i r => simp at this
            subst his
            simp [List.foldlM, pure, Except.pure] at h2 h3
            subst h2; subst h3
            simp [eval, evalStep]
          | cons a as =>
            simp only [evalList, eval, bind, Except.bind] at h1
            cases h1
        | succ n =>
          rw [evalList_ints (fun st i => by simp [eval, evalStep])] at h1'
          simp only [Except.ok.injEq, Prod.mk.injEq] at h1'
          obtain ⟨rfl, rfl⟩ := h1'
          dsimp only at h2
          have hh := (foldlM_ints is 0).symm.trans h2
          simp only [Except.ok.injEq] at hh
          subst hh
          simp only [pure, Except.pure, Except.ok.injEq] at h3
          subst h3
          simp [eval, evalStep]
      · simp only [eval, evalStep, bind_ok]
        exact ⟨(vs, st1), h1', r0, h2, h3⟩
    | eq =>
      simp only [optimize]
      simp only [eval, evalStep, bind_ok] at hr ⊢
      obtain ⟨⟨vs, st1⟩, h1, h2⟩ := hr
      exact ⟨(vs, st1), evalList_opt ih _ _ _ h1, h2⟩
    | reval =>
      simp only [optimize]
      match args, hr with
      | [e0, k], hr =>
        simp only [optList]
        simp only [eval, evalStep, opReval, bind_ok] at hr ⊢
        obtain ⟨⟨kv, st1⟩, h1, h2⟩ := hr
        refine ⟨(kv, st1), ih _ _ _ h1, ?_⟩
        revert h2; simp only; split
        · split
          · exact id
          · simp only [bind_ok]
            rintro ⟨⟨v, st2⟩, h3, h4⟩
            exact ⟨(v, st2), ih _ _ _ h3, h4⟩
        · exact id
      | [], hr => simp [eval, evalStep, opReval] at hr
      | [_], hr => simp [eval, evalStep, opReval] at hr
      | _ :: _ :: _ :: _, hr => simp [eval, evalStep, opReval] at hr
    | step =>
      simp only [optimize]
      match args, hr with
      | [], hr => simpa [optList] using hr
      | [k], hr =>
        simp only [optList]
        simp only [eval, evalStep, bind_ok] at hr ⊢
        obtain ⟨⟨kv, st1⟩, h1, h2⟩ := hr
        exact ⟨(kv, st1), ih _ _ _ h1, h2⟩
      | _ :: _ :: _, hr => simp [eval, evalStep] at hr
    | find =>
      simp only [optimize]
      match args, hr with
      | [c], hr =>
        simp only [optList]
        simp only [eval, evalStep, opFind] at hr ⊢
        split at hr
        · rename_i c' t heq1 heq2
          simp only [List.cons.injEq, and_true] at heq1
          subst heq1
          simp only [heq2, bind_ok] at hr ⊢
          obtain ⟨⟨f, st1⟩, h1, h2⟩ := hr
          exact ⟨(f, st1), findLoop_opt ih _ _ _ _ _ h1, h2⟩
        · simp at hr
      | [], hr => simp [eval, evalStep, opFind] at hr
      | _ :: _ :: _, hr => simp [eval, evalStep, opFind] at hr
    | print =>
      simp only [optimize]
      simp only [eval, evalStep, bind_ok] at hr ⊢
      obtain ⟨⟨vs, st1⟩, h1, h2⟩ := hr
      exact ⟨(vs, st1), evalList_opt ih _ _ _ h1, h2⟩
    | gt =>
      simp only [optimize]
      simp only [eval, evalStep, bind_ok] at hr ⊢
      obtain ⟨⟨vs, st1⟩, h1, h2⟩ := hr
      exact ⟨(vs, st1), evalList_opt ih _ _ _ h1, h2⟩
    | andd =>
      simp only [optimize]
      match args, hr with
      | [a, b], hr =>
        simp only [optList]
        simp only [eval, evalStep, bind_ok] at hr ⊢
        obtain ⟨⟨av, st1⟩, h1, h2⟩ := hr
        refine ⟨(av, st1), ih _ _ _ h1, ?_⟩
        revert h2; simp only; split
        · exact id
        · simp only [bind_ok]
          rintro ⟨⟨bv, st2⟩, h3, h4⟩
          exact ⟨(bv, st2), ih _ _ _ h3, h4⟩
      | [], hr => simp [eval, evalStep] at hr
      | [_], hr => simp [eval, evalStep] at hr
      | _ :: _ :: _ :: _, hr => simp [eval, evalStep] at hr
  | .list [] => simpa [optimize] using hr
  | .list (.none :: _) => simpa [optimize] using hr
  | .list (.int _ :: _) => simpa [optimize] using hr
  | .list (.bool _ :: _) => simpa [optimize] using hr
  | .list (.str _ :: _) => simpa [optimize] using hr
  | .list (.sym _ _ :: _) => simpa [optimize] using hr
  | .list (.list _ :: _) => simpa [optimize] using hr
  | .none => simpa [optimize] using hr
  | .int _ => simpa [optimize] using hr
  | .bool _ => simpa [optimize] using hr
  | .str _ => simpa [optimize] using hr
  | .sym _ _ => simpa [optimize] using hr
  | .op _ => simpa [optimize] using hr


/-- **C08 on the mini evaluator**: whatever `e` evaluates to with fuel `n`, `optimize e` evaluates to the same
    value and state (same output, same trace positions) with the same fuel. -/
theorem optimize_preserves : ∀ n, OptClosed (eval n) := by
  intro n
  induction n with
  | zero => intro st e r h; simp [eval] at h
  | succ n ih => exact opt_step ih

end W
