import P.Basic
namespace W

/-- rec' extends rec on successes -/
def Ext (rec rec' : St → Sx → Res) : Prop := ∀ st e r, rec st e = .ok r → rec' st e = .ok r

theorem bind_ok {α β ε} {x : Except ε α} {f : α → Except ε β} {r : β} :
    (x >>= f) = .ok r ↔ ∃ a, x = .ok a ∧ f a = .ok r := by
  cases x <;> simp [bind, Except.bind]

theorem evalList_mono {rec rec'} (h : Ext rec rec') :
    ∀ args st r, evalList rec st args = .ok r → evalList rec' st args = .ok r := by
  intro args
  induction args with
  | nil => intro st r hr; simpa [evalList] using hr
  | cons a as ih =>
    intro st r hr
    simp only [evalList, bind_ok] at hr ⊢
    obtain ⟨⟨v, st1⟩, h1, ⟨vs, st2⟩, h2, h3⟩ := hr
    exact ⟨(v, st1), h _ _ _ h1, (vs, st2), ih _ _ h2, h3⟩

theorem findLoop_mono {rec rec'} (h : Ext rec rec') (c : Sx) :
    ∀ k st acc r, findLoop rec c k st acc = .ok r → findLoop rec' c k st acc = .ok r := by
  intro k
  induction k with
  | zero => intro st acc r hr; simpa [findLoop] using hr
  | succ k ih =>
    intro st acc r hr
    simp only [findLoop, bind_ok] at hr ⊢
    obtain ⟨⟨v, st1⟩, h1, h2⟩ := hr
    refine ⟨(v, st1), h _ _ _ h1, ?_⟩
    revert h2
    simp only
    split
    · exact id
    · split
      · exact ih _ _ _
      · exact id

theorem opReval_mono {rec rec'} (h : Ext rec rec') (st args r) :
    opReval rec st args = .ok r → opReval rec' st args = .ok r := by
  unfold opReval
  split
  · simp only [bind_ok]
    rintro ⟨⟨kv, st1⟩, h1, h2⟩
    refine ⟨(kv, st1), h _ _ _ h1, ?_⟩
    revert h2
    simp only
    split
    · split
      · exact id
      · simp only [bind_ok]
        rintro ⟨⟨v, st2⟩, h3, h4⟩
        exact ⟨(v, st2), h _ _ _ h3, h4⟩
    · exact id
  · exact id


theorem opFind_mono {rec rec'} (h : Ext rec rec') (st args r) :
    opFind rec st args = .ok r → opFind rec' st args = .ok r := by
  unfold opFind
  split
  · simp only [bind_ok]
    rintro ⟨⟨f, st1⟩, h1, h2⟩
    exact ⟨(f, st1), findLoop_mono h _ _ _ _ _ h1, h2⟩
  · exact id

theorem evalStep_mono {rec rec'} (h : Ext rec rec') (st e r) :
    evalStep rec st e = .ok r → evalStep rec' st e = .ok r := by
  unfold evalStep
  split
  · exact id
  · split
    · exact id
    · -- add
      simp only [bind_ok]
      rintro ⟨⟨vs, st1⟩, h1, h2⟩
      exact ⟨(vs, st1), evalList_mono h _ _ _ h1, h2⟩
    · simp only [bind_ok]
      rintro ⟨⟨vs, st1⟩, h1, h2⟩
      exact ⟨(vs, st1), evalList_mono h _ _ _ h1, h2⟩
    · simp only [bind_ok]
      rintro ⟨⟨vs, st1⟩, h1, h2⟩
      exact ⟨(vs, st1), evalList_mono h _ _ _ h1, h2⟩
    · -- if
      split
      · simp only [bind_ok]
        rintro ⟨⟨cv, st1⟩, h1, h2⟩
        refine ⟨(cv, st1), h _ _ _ h1, ?_⟩
        revert h2; simp only; split <;> exact h _ _ _
      · exact id
    · -- and
      split
      · simp only [bind_ok]
        rintro ⟨⟨av, st1⟩, h1, h2⟩
        refine ⟨(av, st1), h _ _ _ h1, ?_⟩
        revert h2; simp only; split
        · exact id
        · simp only [bind_ok]
          rintro ⟨⟨bv, st2⟩, h3, h4⟩
          exact ⟨(bv, st2), h _ _ _ h3, h4⟩
      · exact id
    · simp only [bind_ok]
      rintro ⟨⟨vs, st1⟩, h1, h2⟩
      exact ⟨(vs, st1), evalList_mono h _ _ _ h1, h2⟩
    · simp only [bind_ok]
      rintro ⟨⟨vs, st1⟩, h1, h2⟩
      exact ⟨(vs, st1), evalList_mono h _ _ _ h1, h2⟩
    · -- step
      split
      · exact id
      · simp only [bind_ok]
        rintro ⟨⟨kv, st1⟩, h1, h2⟩
        exact ⟨(kv, st1), h _ _ _ h1, h2⟩
      · exact id
    · exact opReval_mono h _ _ _
    · exact opFind_mono h _ _ _
  · exact id
  · exact id

theorem eval_mono : ∀ n, Ext (eval n) (eval (n+1)) := by
  intro n
  induction n with
  | zero => intro st e r hr; simp [eval] at hr
  | succ n ih => intro st e r hr; exact evalStep_mono ih st e r hr

theorem eval_mono_le {n m : Nat} (hnm : n ≤ m) : Ext (eval n) (eval m) := by
  induction hnm with
  | refl => intro _ _ _ h; exact h
  | step _ ih => intro st e r h; exact eval_mono _ st e r (ih st e r h)

end W
