/-! Prototype 2 for C07: frames with several names that grow by `define`; `must/may` descriptors. -/
namespace R2

inductive Tm where
  | int (i : Int)
  | var (x : String) (steps : Option Nat)
  | let_ (x : String) (e body : Tm)
  | fn (x : String) (body : Tm)
  | app (f a : Tm)
  | set (x : String) (steps : Option Nat) (e : Tm)
  | define (x : String) (e : Tm)
  | seq (a b : Tm)
  | ifz (c a b : Tm)

inductive Val where
  | int (i : Int)
  | clo (env : Nat) (x : String) (body : Tm)

structure Frame where
  vars : List (String × Val)
  parent : Option Nat

def Frame.has (fr : Frame) (x : String) : Bool := (fr.vars.lookup x).isSome

structure St where
  heap : List Frame
  env : Nat

inductive Err where | fuel | unbound | type | badhop | redefine
abbrev Res := Except Err (Val × St)

def hop (heap : List Frame) : Nat → Option Nat → Option (Option Nat)
  | 0, e => some e
  | k+1, some id => match heap[id]? with
    | some f => hop heap k f.parent
    | none => none
  | _+1, none => none

def find (heap : List Frame) (x : String) : Nat → Option Nat → Option Nat
  | 0, _ => none
  | _, none => none
  | fuel+1, some id => match heap[id]? with
    | some f => if f.has x then some id else find heap x fuel f.parent
    | none => none

def startOf (m : Bool) (heap : List Frame) (env : Nat) (steps : Option Nat) : Option (Option Nat) :=
  match m, steps with
  | true, some k => hop heap k (some env)
  | _, _ => some (some env)

def upd (vars : List (String × Val)) (x : String) (v : Val) : List (String × Val) :=
  vars.map (fun (k, w) => if k = x then (k, v) else (k, w))

def setVal (heap : List Frame) (id : Nat) (x : String) (v : Val) : List Frame :=
  match heap[id]? with
  | some f => heap.set id { f with vars := upd f.vars x v }
  | none => heap

def addVar (heap : List Frame) (id : Nat) (x : String) (v : Val) : List Frame :=
  match heap[id]? with
  | some f => heap.set id { f with vars := (x, v) :: f.vars }
  | none => heap

def eval (m : Bool) : Nat → St → Tm → Res
  | 0, _, _ => .error .fuel
  | n+1, st, e =>
    match e with
    | .int i => .ok (.int i, st)
    | .var x steps =>
      match startOf m st.heap st.env steps with
      | none => .error .badhop
      | some s => match find st.heap x st.heap.length s with
        | some id => match st.heap[id]? with
          | some f => match f.vars.lookup x with
            | some v => .ok (v, st)
            | none => .error .unbound
          | none => .error .unbound
        | none => .error .unbound
    | .let_ x e body => do
      let (v, st1) ← eval m n st e
      let id := st1.heap.length
      let (r, st2) ← eval m n { heap := st1.heap ++ [{ vars := [(x, v)], parent := some st1.env }], env := id } body
      pure (r, { st2 with env := st1.env })
    | .fn x body => .ok (.clo st.env x body, st)
    | .app f a => do
      let (fv, st1) ← eval m n st f
      match fv with
      | .clo cenv x body => do
        let (av, st2) ← eval m n st1 a
        let id := st2.heap.length
        let (r, st3) ← eval m n { heap := st2.heap ++ [{ vars := [(x, av)], parent := some cenv }], env := id } body
        pure (r, { st3 with env := st2.env })
      | _ => .error .type
    | .set x steps e => do
      let (v, st1) ← eval m n st e
      match startOf m st1.heap st1.env steps with
      | none => .error .badhop
      | some s => match find st1.heap x st1.heap.length s with
        | some id => pure (v, { st1 with heap := setVal st1.heap id x v })
        | none => .error .unbound
    | .define x e => do
      let (v, st1) ← eval m n st e
      match st1.heap[st1.env]? with
      | some f => if f.has x then .error .redefine else pure (v, { st1 with heap := addVar st1.heap st1.env x v })
      | none => .error .unbound
    | .seq a b => do
      let (_, st1) ← eval m n st a
      eval m n st1 b
    | .ifz c a b => do
      let (cv, st1) ← eval m n st c
      match cv with
      | .int 0 => eval m n st1 a
      | _ => eval m n st1 b


/-! ### static descriptors -/

structure D where
  must : List String
  may : String → Prop

def ValidVar (ds : List D) (x : String) : Option Nat → Prop
  | none => True
  | some k => (∃ d, ds[k]? = some d ∧ x ∈ d.must) ∧ ∀ (j : Nat) (d : D), j < k → ds[j]? = some d → ¬ d.may x

inductive VA : List D → Tm → List D → Prop
  | int {ds i} : VA ds (.int i) ds
  | var {ds x s} : ValidVar ds x s → VA ds (.var x s) ds
  | seq {ds ds1 ds2 a b} : VA ds a ds1 → VA ds1 b ds2 → VA ds (.seq a b) ds2
  | define {ds d tl x e} : VA ds e (d :: tl) → d.may x →
      VA ds (.define x e) ({ d with must := x :: d.must } :: tl)
  | let_ {ds ds1 dsb x e body} {m : String → Prop} : VA ds e ds1 → m x →
      VA ({ must := [x], may := m } :: ds1) body dsb → VA ds (.let_ x e body) ds1
  | fn {ds dsb x body} {m : String → Prop} : m x →
      VA ({ must := [x], may := m } :: ds) body dsb → VA ds (.fn x body) ds
  | app {ds ds1 ds2 f a} : VA ds f ds1 → VA ds1 a ds2 → VA ds (.app f a) ds2
  | set {ds ds1 x s e} : VA ds e ds1 → ValidVar ds1 x s → VA ds (.set x s e) ds1
  | ifz {ds ds1 c a b} : VA ds c ds1 → VA ds1 a ds1 → VA ds1 b ds1 → VA ds (.ifz c a b) ds1

/-! ### run-time invariant -/

abbrev Sig := List (String → Prop)

inductive Chain (heap : List Frame) (σ : Sig) : Option Nat → List D → Prop
  | nil : Chain heap σ none []
  | cons {id : Nat} {fr : Frame} {d : D} {ds : List D} :
      heap[id]? = some fr → σ[id]? = some d.may → (∀ x, x ∈ d.must → fr.has x = true) →
      Chain heap σ fr.parent ds → Chain heap σ (some id) (d :: ds)

@[reducible] def WFH (heap : List Frame) : Prop :=
  ∀ (id : Nat) (fr : Frame), heap[id]? = some fr → ∀ p, fr.parent = some p → p < id

def ValOK (heap : List Frame) (σ : Sig) : Val → Prop
  | .int _ => True
  | .clo cenv x body => ∃ (ds : List D) (m : String → Prop) (dsb : List D),
      Chain heap σ (some cenv) ds ∧ m x ∧ VA ({ must := [x], may := m } :: ds) body dsb

structure HeapOK (heap : List Frame) (σ : Sig) : Prop where
  wf : WFH heap
  len : σ.length = heap.length
  keys : ∀ (id : Nat) (fr : Frame) (m : String → Prop), heap[id]? = some fr → σ[id]? = some m → ∀ x, fr.has x = true → m x
  vals : ∀ (id : Nat) (fr : Frame), heap[id]? = some fr → ∀ p, p ∈ fr.vars → ValOK heap σ p.2

structure Ext (heap : List Frame) (σ : Sig) (heap' : List Frame) (σ' : Sig) : Prop where
  sig : ∀ (id : Nat) (m : String → Prop), σ[id]? = some m → σ'[id]? = some m
  frames : ∀ (id : Nat) (fr : Frame), heap[id]? = some fr →
    ∃ fr', heap'[id]? = some fr' ∧ fr'.parent = fr.parent ∧ ∀ x, fr.has x = true → fr'.has x = true

theorem Ext.refl (h : List Frame) (σ : Sig) : Ext h σ h σ :=
  ⟨fun _ _ h => h, fun _ fr hfr => ⟨fr, hfr, rfl, fun _ h => h⟩⟩

theorem Ext.trans {a σa b σb c σc} (h1 : Ext a σa b σb) (h2 : Ext b σb c σc) : Ext a σa c σc := by
  refine ⟨fun id m h => h2.sig id m (h1.sig id m h), ?_⟩
  intro id fr hfr
  obtain ⟨fr', h', hp, hk⟩ := h1.frames id fr hfr
  obtain ⟨fr'', h'', hp', hk'⟩ := h2.frames id fr' h'
  exact ⟨fr'', h'', hp'.trans hp, fun x hx => hk' x (hk x hx)⟩

theorem Chain.ext {heap σ heap' σ'} (hx : Ext heap σ heap' σ') :
    ∀ {env ds}, Chain heap σ env ds → Chain heap' σ' env ds := by
  intro env ds h
  induction h with
  | nil => exact Chain.nil
  | @cons id fr d ds hfr hs hm _ ih =>
    obtain ⟨fr', h', hp, hk⟩ := hx.frames id fr hfr
    exact Chain.cons h' (hx.sig _ _ hs) (fun x hxm => hk x (hm x hxm)) (by rw [hp]; exact ih)

theorem ValOK.ext {heap σ heap' σ'} (hx : Ext heap σ heap' σ') {v} (h : ValOK heap σ v) : ValOK heap' σ' v := by
  cases v with
  | int _ => trivial
  | clo cenv x body =>
    obtain ⟨ds, m, dsb, hc, hm, hv⟩ := h
    exact ⟨ds, m, dsb, hc.ext hx, hm, hv⟩

theorem Chain.len_le {heap σ} (wf : WFH heap) : ∀ {env ds}, Chain heap σ env ds →
    ∀ i, env = some i → ds.length ≤ i + 1 := by
  intro env ds h
  induction h with
  | nil => intro i h; cases h
  | @cons id' fr d ds hfr _ _ hch ih =>
    intro i hid
    cases hid
    cases hp : fr.parent with
    | none => rw [hp] at hch; cases hch; simp
    | some p =>
      have := ih p hp
      have hlt := wf id' fr hfr p hp
      simp; omega

theorem Chain.len_le_heap {heap σ} (wf : WFH heap) {env ds} (h : Chain heap σ env ds) : ds.length ≤ heap.length := by
  cases env with
  | none => cases h; simp
  | some i =>
    have := h.len_le wf i rfl
    cases h with
    | cons hfr _ _ _ =>
      have : i < heap.length := by
        rcases List.getElem?_eq_some_iff.mp hfr with ⟨hlt, _⟩; exact hlt
      omega

theorem find_fuel {heap σ x} : ∀ {env ds}, Chain heap σ env ds → ∀ f1 f2, ds.length ≤ f1 → ds.length ≤ f2 →
    find heap x f1 env = find heap x f2 env := by
  intro env ds h
  induction h with
  | nil => intro f1 f2 _ _; cases f1 <;> cases f2 <;> simp [find]
  | @cons id fr d ds hfr _ _ hch ih =>
    intro f1 f2 h1 h2
    cases f1 with
    | zero => simp at h1
    | succ f1 =>
      cases f2 with
      | zero => simp at h2
      | succ f2 =>
        simp only [find, hfr]
        split
        · rfl
        · exact ih f1 f2 (by simp at h1; omega) (by simp at h2; omega)

theorem find_hop {heap σ x} (hok : HeapOK heap σ) : ∀ {env ds}, Chain heap σ env ds → ∀ k s fuel,
    (∀ (j : Nat) (d : D), j < k → ds[j]? = some d → ¬ d.may x) → k ≤ ds.length → hop heap k env = some s →
    find heap x (fuel + k) env = find heap x fuel s := by
  intro env ds h
  induction h with
  | nil =>
    intro k s fuel _ hk hs
    have : k = 0 := by simpa using hk
    subst this; simp [hop] at hs; subst hs; rfl
  | @cons id fr d ds hfr hsig _ hch ih =>
    intro k s fuel hno hk hs
    cases k with
    | zero => simp [hop] at hs; subst hs; rfl
    | succ k =>
      simp only [hop, hfr] at hs
      have hne : fr.has x = false := by
        have hnm := hno 0 d (by omega) (by simp)
        cases hh : fr.has x with
        | false => rfl
        | true => exact absurd (hok.keys id fr d.may hfr hsig x hh) hnm
      have : fuel + (k+1) = (fuel + k) + 1 := by omega
      rw [this]
      simp only [find, hfr, hne]
      exact ih k s fuel (fun j d' hj hd => hno (j+1) d' (by omega) (by simpa using hd)) (by simp at hk; omega) hs

theorem hop_chain {heap σ} : ∀ {env ds}, Chain heap σ env ds → ∀ k, k ≤ ds.length →
    ∃ s, hop heap k env = some s ∧ Chain heap σ s (ds.drop k) := by
  intro env ds h
  induction h with
  | nil => intro k hk; have : k = 0 := by simpa using hk
           subst this; exact ⟨none, rfl, Chain.nil⟩
  | @cons id fr d ds hfr hsig hm hch ih =>
    intro k hk
    cases k with
    | zero => exact ⟨some id, rfl, Chain.cons hfr hsig hm hch⟩
    | succ k =>
      obtain ⟨s, hs, hc⟩ := ih k (by simp at hk; omega)
      exact ⟨s, by simp [hop, hfr, hs], by simpa using hc⟩

theorem start_eq {heap σ env ds x steps} (hok : HeapOK heap σ) (hc : Chain heap σ (some env) ds) (hv : ValidVar ds x steps) :
    ∃ s, startOf true heap env steps = some s ∧
      find heap x heap.length s = find heap x heap.length (some env) := by
  cases steps with
  | none => exact ⟨some env, rfl, rfl⟩
  | some k =>
    obtain ⟨⟨d, hk, _⟩, hno⟩ := hv
    have hklt : k < ds.length := by
      rcases List.getElem?_eq_some_iff.mp hk with ⟨h, _⟩; exact h
    obtain ⟨s, hs, hcs⟩ := hop_chain hc k (by omega)
    refine ⟨s, by simp [startOf, hs], ?_⟩
    have hlen := hc.len_le_heap hok.wf
    have h1 := find_hop (x := x) hok hc k s (heap.length - k) hno (by omega) hs
    have : heap.length - k + k = heap.length := by omega
    rw [this] at h1
    rw [h1]
    exact find_fuel hcs _ _ (by simp; omega) (by simp; omega)


theorem getElem?_lt {α} {l : List α} {i : Nat} {a : α} (h : l[i]? = some a) : i < l.length := by
  rcases List.getElem?_eq_some_iff.mp h with ⟨h, _⟩; exact h

theorem push_ext (heap : List Frame) (σ : Sig) (fr : Frame) (m : String → Prop) :
    Ext heap σ (heap ++ [fr]) (σ ++ [m]) := by
  refine ⟨?_, ?_⟩
  · intro id m' h
    rw [List.getElem?_append_left (getElem?_lt h)]; exact h
  · intro id f hf
    exact ⟨f, by rw [List.getElem?_append_left (getElem?_lt hf)]; exact hf, rfl, fun _ h => h⟩

theorem has_single (x : String) (v : Val) (y : String) :
    ({ vars := [(x, v)], parent := p } : Frame).has y = true ↔ y = x := by
  simp [Frame.has, List.lookup]
  by_cases h : y = x
  · simp [h]
  · have : (y == x) = false := by simpa using h
    simp [this, h]

theorem push_ok {heap σ p ds x v} {m : String → Prop} (hok : HeapOK heap σ) (hc : Chain heap σ (some p) ds)
    (hv : ValOK heap σ v) (hm : m x) :
    HeapOK (heap ++ [{ vars := [(x, v)], parent := some p }]) (σ ++ [m]) ∧
    Chain (heap ++ [{ vars := [(x, v)], parent := some p }]) (σ ++ [m]) (some heap.length) ({ must := [x], may := m } :: ds) := by
  have hx := push_ext heap σ { vars := [(x, v)], parent := some p } m
  have hnew : (heap ++ [({ vars := [(x, v)], parent := some p } : Frame)])[heap.length]? = some { vars := [(x, v)], parent := some p } := by
    simp
  have hnews : (σ ++ [m])[heap.length]? = some m := by
    rw [← hok.len]; simp
  have hplt : p < heap.length := by cases hc with | cons hfr _ _ _ => exact getElem?_lt hfr
  refine ⟨⟨?_, ?_, ?_, ?_⟩, ?_⟩
  · intro id fr hfr q hq
    by_cases hlt : id < heap.length
    · rw [List.getElem?_append_left hlt] at hfr
      exact hok.wf id fr hfr q hq
    · have hid : id = heap.length := by have := getElem?_lt hfr; simp at this; omega
      subst hid
      rw [hnew] at hfr; cases hfr
      simp at hq; omega
  · simp [hok.len]
  · intro id fr m' hfr hs y hy
    by_cases hlt : id < heap.length
    · rw [List.getElem?_append_left hlt] at hfr
      rw [List.getElem?_append_left (by rw [hok.len]; exact hlt)] at hs
      exact hok.keys id fr m' hfr hs y hy
    · have hid : id = heap.length := by have := getElem?_lt hfr; simp at this; omega
      subst hid
      rw [hnew] at hfr; cases hfr
      rw [hnews] at hs; cases hs
      have := (has_single x v y).mp hy
      subst this; exact hm
  · intro id fr hfr q hq
    by_cases hlt : id < heap.length
    · rw [List.getElem?_append_left hlt] at hfr
      exact (hok.vals id fr hfr q hq).ext hx
    · have hid : id = heap.length := by have := getElem?_lt hfr; simp at this; omega
      subst hid
      rw [hnew] at hfr; cases hfr
      simp at hq; subst hq
      exact hv.ext hx
  · refine Chain.cons (fr := { vars := [(x, v)], parent := some p }) (d := { must := [x], may := m }) hnew hnews ?_ (hc.ext hx)
    intro y hy
    simp at hy; subst hy
    exact (has_single y v y).mpr rfl


theorem lookup_upd_isSome (vars : List (String × Val)) (x : String) (v : Val) (y : String) :
    ((upd vars x v).lookup y).isSome = (vars.lookup y).isSome := by
  induction vars with
  | nil => rfl
  | cons q r ih =>
    obtain ⟨k, w⟩ := q
    simp only [upd, List.map_cons] at ih ⊢
    by_cases hk : k = x
    · subst hk
      by_cases hy : (y == k) = true
      · simp [List.lookup, hy]
      · have : (y == k) = false := by simpa using hy
        simp [List.lookup, this, ih]
    · by_cases hy : (y == k) = true
      · simp [List.lookup, hy, hk]
      · have : (y == k) = false := by simpa using hy
        simp [List.lookup, this, hk, ih]

theorem mem_upd {vars : List (String × Val)} {x : String} {v : Val} {q : String × Val} (h : q ∈ upd vars x v) :
    q.2 = v ∨ q ∈ vars := by
  simp only [upd, List.mem_map] at h
  obtain ⟨⟨k, w⟩, hmem, heq⟩ := h
  by_cases hk : k = x
  · simp [hk] at heq; subst heq; exact Or.inl rfl
  · simp [hk] at heq; subst heq; exact Or.inr hmem

theorem setVal_ext (heap : List Frame) (σ : Sig) (id : Nat) (x : String) (v : Val) :
    Ext heap σ (setVal heap id x v) σ := by
  refine ⟨fun _ _ h => h, ?_⟩
  intro i fr hfr
  unfold setVal
  split
  · rename_i f hf
    by_cases hi : i = id
    · subst hi
      rw [hf] at hfr; cases hfr
      exact ⟨{ fr with vars := upd fr.vars x v }, by simp [getElem?_lt hf], rfl,
        fun y hy => by simpa [Frame.has, lookup_upd_isSome] using hy⟩
    · exact ⟨fr, by rw [List.getElem?_set_ne (Ne.symm hi)]; exact hfr, rfl, fun _ h => h⟩
  · exact ⟨fr, hfr, rfl, fun _ h => h⟩

theorem setVal_ok {heap σ id x v} (hok : HeapOK heap σ) (hv : ValOK heap σ v) : HeapOK (setVal heap id x v) σ := by
  have hx := setVal_ext heap σ id x v
  have hget : ∀ (i : Nat) (fr : Frame), (setVal heap id x v)[i]? = some fr →
      ∃ f, heap[i]? = some f ∧ fr.parent = f.parent ∧ (∀ y, fr.has y = f.has y) ∧
        ∀ q, q ∈ fr.vars → q.2 = v ∨ q ∈ f.vars := by
    intro i fr hfr
    unfold setVal at hfr
    split at hfr
    · rename_i f hf
      by_cases hi : i = id
      · subst hi
        simp [getElem?_lt hf] at hfr
        subst hfr
        exact ⟨f, hf, rfl, fun y => by simp [Frame.has, lookup_upd_isSome], fun q hq => mem_upd hq⟩
      · rw [List.getElem?_set_ne (Ne.symm hi)] at hfr
        exact ⟨fr, hfr, rfl, fun _ => rfl, fun q hq => Or.inr hq⟩
    · exact ⟨fr, hfr, rfl, fun _ => rfl, fun q hq => Or.inr hq⟩
  have hlen : (setVal heap id x v).length = heap.length := by
    unfold setVal; split <;> simp
  refine ⟨?_, by rw [hlen]; exact hok.len, ?_, ?_⟩
  · intro i fr hfr p hp
    obtain ⟨f, hf, hpar, _, _⟩ := hget i fr hfr
    exact hok.wf i f hf p (by rw [← hpar]; exact hp)
  · intro i fr m hfr hs y hy
    obtain ⟨f, hf, _, hhas, _⟩ := hget i fr hfr
    exact hok.keys i f m hf hs y (by rw [← hhas]; exact hy)
  · intro i fr hfr q hq
    obtain ⟨f, hf, _, _, hmem⟩ := hget i fr hfr
    rcases hmem q hq with h | h
    · rw [h]; exact hv.ext hx
    · exact (hok.vals i f hf q h).ext hx

theorem has_cons (fr : Frame) (x : String) (v : Val) (y : String) :
    ({ fr with vars := (x, v) :: fr.vars } : Frame).has y = (decide (y = x) || fr.has y) := by
  simp only [Frame.has, List.lookup]
  by_cases h : y = x
  · subst h; simp
  · have : (y == x) = false := by simpa using h
    simp [this, h]

theorem addVar_ext (heap : List Frame) (σ : Sig) (id : Nat) (x : String) (v : Val) :
    Ext heap σ (addVar heap id x v) σ := by
  refine ⟨fun _ _ h => h, ?_⟩
  intro i fr hfr
  unfold addVar
  split
  · rename_i f hf
    by_cases hi : i = id
    · subst hi
      rw [hf] at hfr; cases hfr
      exact ⟨{ fr with vars := (x, v) :: fr.vars }, by simp [getElem?_lt hf], rfl,
        fun y hy => by rw [has_cons]; simp [hy]⟩
    · exact ⟨fr, by rw [List.getElem?_set_ne (Ne.symm hi)]; exact hfr, rfl, fun _ h => h⟩
  · exact ⟨fr, hfr, rfl, fun _ h => h⟩

theorem addVar_ok {heap σ id x v} {m : String → Prop} (hok : HeapOK heap σ) (hv : ValOK heap σ v)
    (hs : σ[id]? = some m) (hm : m x) : HeapOK (addVar heap id x v) σ := by
  have hx := addVar_ext heap σ id x v
  have hget : ∀ (i : Nat) (fr : Frame), (addVar heap id x v)[i]? = some fr →
      ∃ f, heap[i]? = some f ∧ fr.parent = f.parent ∧
        (∀ y, fr.has y = true → f.has y = true ∨ (i = id ∧ y = x)) ∧
        ∀ q, q ∈ fr.vars → q.2 = v ∨ q ∈ f.vars := by
    intro i fr hfr
    unfold addVar at hfr
    split at hfr
    · rename_i f hf
      by_cases hi : i = id
      · subst hi
        simp [getElem?_lt hf] at hfr
        subst hfr
        refine ⟨f, hf, rfl, ?_, ?_⟩
        · intro y hy
          rw [has_cons] at hy
          simp at hy
          rcases hy with h | h
          · exact Or.inr ⟨rfl, h⟩
          · exact Or.inl h
        · intro q hq
          simp at hq
          rcases hq with h | h
          · subst h; exact Or.inl rfl
          · exact Or.inr h
      · rw [List.getElem?_set_ne (Ne.symm hi)] at hfr
        exact ⟨fr, hfr, rfl, fun _ h => Or.inl h, fun q hq => Or.inr hq⟩
    · exact ⟨fr, hfr, rfl, fun _ h => Or.inl h, fun q hq => Or.inr hq⟩
  have hlen : (addVar heap id x v).length = heap.length := by
    unfold addVar; split <;> simp
  refine ⟨?_, by rw [hlen]; exact hok.len, ?_, ?_⟩
  · intro i fr hfr p hp
    obtain ⟨f, hf, hpar, _, _⟩ := hget i fr hfr
    exact hok.wf i f hf p (by rw [← hpar]; exact hp)
  · intro i fr m' hfr hs' y hy
    obtain ⟨f, hf, _, hhas, _⟩ := hget i fr hfr
    rcases hhas y hy with h | ⟨rfl, rfl⟩
    · exact hok.keys i f m' hf hs' y h
    · rw [hs] at hs'; cases hs'; exact hm
  · intro i fr hfr q hq
    obtain ⟨f, hf, _, _, hmem⟩ := hget i fr hfr
    rcases hmem q hq with h | h
    · rw [h]; exact hv.ext hx
    · exact (hok.vals i f hf q h).ext hx


def Post (st : St) (σ : Sig) (ds' : List D) (v : Val) (st' : St) : Prop :=
  ∃ σ', HeapOK st'.heap σ' ∧ Ext st.heap σ st'.heap σ' ∧ st'.env = st.env ∧ ValOK st'.heap σ' v ∧
    Chain st'.heap σ' (some st'.env) ds'

theorem mem_of_lookup {vars : List (String × Val)} {x : String} {v : Val} (h : vars.lookup x = some v) :
    (x, v) ∈ vars := by
  induction vars with
  | nil => simp [List.lookup] at h
  | cons q r ih =>
    obtain ⟨k, w⟩ := q
    by_cases hk : (x == k) = true
    · simp [List.lookup, hk] at h; subst h
      have : x = k := by simpa using hk
      subst this; simp
    · have : (x == k) = false := by simpa using hk
      simp [List.lookup, this] at h
      exact List.mem_cons_of_mem _ (ih h)

theorem main : ∀ (n : Nat) (st : St) (σ : Sig) (e : Tm) (ds ds' : List D),
    HeapOK st.heap σ → Chain st.heap σ (some st.env) ds → VA ds e ds' →
    eval true n st e = eval false n st e ∧
    (∀ v st', eval false n st e = .ok (v, st') → Post st σ ds' v st') := by
  intro n
  induction n with
  | zero => intro st σ e ds ds' _ _ _; exact ⟨rfl, fun v st' h => by simp [eval] at h⟩
  | succ n ih =>
    intro st σ e ds ds' hok hc hva
    cases hva with
    | int => exact ⟨rfl, fun v st' h => by
        simp [eval] at h; obtain ⟨rfl, rfl⟩ := h; exact ⟨σ, hok, Ext.refl _ _, rfl, trivial, hc⟩⟩
    | @var _ x steps hv =>
      obtain ⟨s, hs, hfind⟩ := start_eq hok hc hv
      have hfalse : startOf false st.heap st.env steps = some (some st.env) := by cases steps <;> rfl
      refine ⟨by simp only [eval, hs, hfalse, hfind], ?_⟩
      intro v st' h
      simp only [eval, hfalse] at h
      split at h
      · split at h
        · rename_i id _ fr hfr
          split at h
          · rename_i w hw
            simp at h; obtain ⟨rfl, rfl⟩ := h
            exact ⟨σ, hok, Ext.refl _ _, rfl, hok.vals _ _ hfr _ (mem_of_lookup hw), hc⟩
          · simp at h
        · simp at h
      · simp at h
    | @fn _ dsb x body m hm hb =>
      exact ⟨rfl, fun v st' h => by
        simp [eval] at h; obtain ⟨rfl, rfl⟩ := h
        exact ⟨σ, hok, Ext.refl _ _, rfl, ⟨ds, m, dsb, hc, hm, hb⟩, hc⟩⟩
    | @seq _ ds1 _ a b ha hb =>
      obtain ⟨eqa, posta⟩ := ih st σ a ds ds1 hok hc ha
      simp only [eval, eqa]
      cases hra : eval false n st a with
      | error er => exact ⟨by first | rfl | trivial, fun v st' h => by simp [bind, Except.bind] at h⟩
      | ok r =>
        obtain ⟨av, st1⟩ := r
        obtain ⟨σ1, hok1, hx1, henv1, hv1, hc1⟩ := posta av st1 hra
        obtain ⟨eqb, postb⟩ := ih st1 σ1 b ds1 ds' hok1 hc1 hb
        simp only [bind, Except.bind, eqb]
        refine ⟨by first | rfl | trivial, ?_⟩
        intro v st' h
        obtain ⟨σ2, hok2, hx2, henv2, hv2, hc2⟩ := postb v st' h
        exact ⟨σ2, hok2, hx1.trans hx2, henv2.trans henv1, hv2, hc2⟩
    | @ifz _ _ c a b hcnd ha hb =>
      obtain ⟨eqc, postc⟩ := ih st σ c ds ds' hok hc hcnd
      simp only [eval, eqc]
      cases hrc : eval false n st c with
      | error er => exact ⟨by first | rfl | trivial, fun v st' h => by simp [bind, Except.bind] at h⟩
      | ok r =>
        obtain ⟨cv, st1⟩ := r
        obtain ⟨σ1, hok1, hx1, henv1, hv1, hc1⟩ := postc cv st1 hrc
        obtain ⟨eqa, posta⟩ := ih st1 σ1 a ds' ds' hok1 hc1 ha
        obtain ⟨eqb, postb⟩ := ih st1 σ1 b ds' ds' hok1 hc1 hb
        simp only [bind, Except.bind]
        split
        · refine ⟨eqa, ?_⟩
          intro v st' h
          obtain ⟨σ2, hok2, hx2, henv2, hv2, hc2⟩ := posta v st' h
          exact ⟨σ2, hok2, hx1.trans hx2, henv2.trans henv1, hv2, hc2⟩
        · refine ⟨eqb, ?_⟩
          intro v st' h
          obtain ⟨σ2, hok2, hx2, henv2, hv2, hc2⟩ := postb v st' h
          exact ⟨σ2, hok2, hx1.trans hx2, henv2.trans henv1, hv2, hc2⟩
    | @set _ _ x steps e0 he hv =>
      obtain ⟨eqe, poste⟩ := ih st σ e0 ds ds' hok hc he
      simp only [eval, eqe]
      cases hre : eval false n st e0 with
      | error er => exact ⟨by first | rfl | trivial, fun v st' h => by simp [bind, Except.bind] at h⟩
      | ok r =>
        obtain ⟨v1, st1⟩ := r
        obtain ⟨σ1, hok1, hx1, henv1, hv1, hc1⟩ := poste v1 st1 hre
        obtain ⟨s, hs, hfind⟩ := start_eq hok1 hc1 hv
        have hfalse : startOf false st1.heap st1.env steps = some (some st1.env) := by cases steps <;> rfl
        simp only [bind, Except.bind, hs, hfalse, hfind]
        refine ⟨by first | rfl | trivial, ?_⟩
        intro v st' h
        split at h
        · rename_i id hid
          simp [pure, Except.pure] at h
          obtain ⟨rfl, rfl⟩ := h
          have hxs := setVal_ext st1.heap σ1 id x v1
          exact ⟨σ1, setVal_ok hok1 hv1, hx1.trans hxs, henv1, hv1.ext hxs, hc1.ext hxs⟩
        · simp at h
    | @define _ d tl x e0 he hm =>
      obtain ⟨eqe, poste⟩ := ih st σ e0 ds (d :: tl) hok hc he
      simp only [eval, eqe]
      cases hre : eval false n st e0 with
      | error er => exact ⟨by first | rfl | trivial, fun v st' h => by simp [bind, Except.bind] at h⟩
      | ok r =>
        obtain ⟨v1, st1⟩ := r
        obtain ⟨σ1, hok1, hx1, henv1, hv1, hc1⟩ := poste v1 st1 hre
        simp only [bind, Except.bind]
        refine ⟨by first | rfl | trivial, ?_⟩
        intro v st' h
        cases hc1 with
        | @cons _ fr _ _ hfr hsig hmust hpar =>
          simp only [hfr] at h
          split at h
          · simp at h
          · simp [pure, Except.pure] at h
            obtain ⟨rfl, rfl⟩ := h
            have hxa := addVar_ext st1.heap σ1 st1.env x v1
            refine ⟨σ1, addVar_ok hok1 hv1 hsig hm, hx1.trans hxa, henv1, hv1.ext hxa, ?_⟩
            -- the head frame now also holds x
            have hget : (addVar st1.heap st1.env x v1)[st1.env]? = some { fr with vars := (x, v1) :: fr.vars } := by
              have hset : addVar st1.heap st1.env x v1 = st1.heap.set st1.env { fr with vars := (x, v1) :: fr.vars } := by
                simp only [addVar, hfr]
              rw [hset]
              simp [getElem?_lt hfr]
            refine Chain.cons (fr := { fr with vars := (x, v1) :: fr.vars }) (d := { d with must := x :: d.must }) hget hsig ?_ (hpar.ext hxa)
            intro y hy
            rw [has_cons]
            simp at hy
            rcases hy with rfl | hy
            · simp
            · simp [hmust y hy]
    | @let_ _ _ dsb x e0 body m he hm hb =>
      obtain ⟨eqe, poste⟩ := ih st σ e0 ds ds' hok hc he
      simp only [eval, eqe]
      cases hre : eval false n st e0 with
      | error er => exact ⟨by first | rfl | trivial, fun v st' h => by simp [bind, Except.bind] at h⟩
      | ok r =>
        obtain ⟨v1, st1⟩ := r
        obtain ⟨σ1, hok1, hx1, henv1, hv1, hc1⟩ := poste v1 st1 hre
        obtain ⟨hokp, hcp⟩ := push_ok (x := x) (m := m) hok1 hc1 hv1 hm
        obtain ⟨eqb, postb⟩ := ih { heap := st1.heap ++ [{ vars := [(x, v1)], parent := some st1.env }], env := st1.heap.length }
          (σ1 ++ [m]) body _ dsb hokp hcp hb
        simp only [bind, Except.bind, eqb]
        refine ⟨by first | rfl | trivial, ?_⟩
        intro v st' h
        split at h
        · simp at h
        · rename_i r2 hr2
          obtain ⟨rv, st2⟩ := r2
          obtain ⟨σ2, hok2, hx2, henv2, hv2, hc2⟩ := postb rv st2 hr2
          simp [pure, Except.pure] at h
          obtain ⟨rfl, rfl⟩ := h
          have hxall := (push_ext st1.heap σ1 { vars := [(x, v1)], parent := some st1.env } m).trans hx2
          exact ⟨σ2, hok2, hx1.trans hxall, henv1, hv2, hc1.ext hxall⟩
    | @app _ ds1 _ f a hf ha =>
      obtain ⟨eqf, postf⟩ := ih st σ f ds ds1 hok hc hf
      simp only [eval, eqf]
      cases hrf : eval false n st f with
      | error er => exact ⟨by first | rfl | trivial, fun v st' h => by simp [bind, Except.bind] at h⟩
      | ok r =>
        obtain ⟨fv, st1⟩ := r
        obtain ⟨σ1, hok1, hx1, henv1, hv1, hc1⟩ := postf fv st1 hrf
        cases fv with
        | int i => exact ⟨by first | rfl | trivial, fun v st' h => by simp [bind, Except.bind] at h⟩
        | clo cenv x body =>
          obtain ⟨dsc, m, dsb, hcc, hm, hvb⟩ := hv1
          obtain ⟨eqa, posta⟩ := ih st1 σ1 a ds1 ds' hok1 hc1 ha
          simp only [bind, Except.bind, eqa]
          cases hra : eval false n st1 a with
          | error er => exact ⟨by first | rfl | trivial, fun v st' h => by simp at h⟩
          | ok r2 =>
            obtain ⟨av, st2⟩ := r2
            obtain ⟨σ2, hok2, hx2, henv2, hv2, hc2⟩ := posta av st2 hra
            have hcc2 : Chain st2.heap σ2 (some cenv) dsc := hcc.ext hx2
            obtain ⟨hokp, hcp⟩ := push_ok (x := x) (m := m) hok2 hcc2 hv2 hm
            obtain ⟨eqb, postb⟩ := ih { heap := st2.heap ++ [{ vars := [(x, av)], parent := some cenv }], env := st2.heap.length }
              (σ2 ++ [m]) body _ dsb hokp hcp hvb
            simp only [eqb]
            refine ⟨by first | rfl | trivial, ?_⟩
            intro v st' h
            split at h
            · simp at h
            · rename_i r3 hr3
              obtain ⟨rv, st3⟩ := r3
              obtain ⟨σ3, hok3, hx3, henv3, hv3, hc3⟩ := postb rv st3 hr3
              simp [pure, Except.pure] at h
              obtain ⟨rfl, rfl⟩ := h
              have hxall := (push_ext st2.heap σ2 { vars := [(x, av)], parent := some cenv } m).trans hx3
              exact ⟨σ3, hok3, hx1.trans (hx2.trans hxall), henv2.trans henv1, hv3, hc2.ext hxall⟩


/-! ### the static pass with its safety check produces valid annotations -/

abbrev Sc := List String × List String        -- (names bound so far, names the scope may ever bind)

def toD (s : Sc) : D := { must := s.1, may := fun x => x ∈ s.2 }

def defs : Tm → List String
  | .define x e => x :: defs e
  | .seq a b => defs a ++ defs b
  | .ifz c a b => defs c ++ defs a ++ defs b
  | .app f a => defs f ++ defs a
  | .set _ _ e => defs e
  | .let_ _ e _ => defs e
  | _ => []

def firstIdx (x : String) : List Sc → Option Nat
  | [] => none
  | s :: r => if x ∈ s.1 then some 0 else (firstIdx x r).map (· + 1)

/-- annotation for x, or `none` when a scope skipped over may bind x later (unsafe) -/
def annot (x : String) (sc : List Sc) : Option (Option Nat) :=
  match firstIdx x sc with
  | none => some none
  | some k => if (sc.take k).all (fun s => !(s.2.contains x)) then some (some k) else none

def res : List Sc → Tm → Option (Tm × List Sc)
  | sc, .int i => some (.int i, sc)
  | sc, .var x _ => (annot x sc).map (fun a => (.var x a, sc))
  | sc, .define x e =>
    match res sc e with
    | some (e', (mu, ma) :: tl) => if ma.contains x then some (.define x e', (x :: mu, ma) :: tl) else none
    | _ => none
  | sc, .let_ x e body =>
    match res sc e with
    | some (e', sc1) =>
      match res (([x], x :: defs body) :: sc1) body with
      | some (b', _) => some (.let_ x e' b', sc1)
      | none => none
    | none => none
  | sc, .fn x body =>
    match res (([x], x :: defs body) :: sc) body with
    | some (b', _) => some (.fn x b', sc)
    | none => none
  | sc, .app f a =>
    match res sc f with
    | some (f', sc1) => match res sc1 a with
      | some (a', sc2) => some (.app f' a', sc2)
      | none => none
    | none => none
  | sc, .set x _ e =>
    match res sc e with
    | some (e', sc1) => (annot x sc1).map (fun a => (.set x a e', sc1))
    | none => none
  | sc, .seq a b =>
    match res sc a with
    | some (a', sc1) => match res sc1 b with
      | some (b', sc2) => some (.seq a' b', sc2)
      | none => none
    | none => none
  | sc, .ifz c a b =>
    match res sc c with
    | some (c', sc1) =>
      match res sc1 a, res sc1 b with
      | some (a', sca), some (b', scb) => if sca = sc1 ∧ scb = sc1 then some (.ifz c' a' b', sc1) else none
      | _, _ => none
    | none => none

theorem firstIdx_spec (x : String) : ∀ (sc : List Sc) (k : Nat), firstIdx x sc = some k →
    (∃ s, sc[k]? = some s ∧ x ∈ s.1) := by
  intro sc
  induction sc with
  | nil => intro k h; simp [firstIdx] at h
  | cons s r ih =>
    intro k h
    simp only [firstIdx] at h
    split at h
    · rename_i hx; cases h; exact ⟨s, by simp, hx⟩
    · cases hf : firstIdx x r with
      | none => simp [hf] at h
      | some k' =>
        simp [hf] at h; subst h
        obtain ⟨s', hs', hx'⟩ := ih k' hf
        exact ⟨s', by simpa using hs', hx'⟩

theorem annot_valid {x sc a} (h : annot x sc = some a) : ValidVar (sc.map toD) x a := by
  unfold annot at h
  split at h
  · cases h; trivial
  · rename_i k hk
    split at h
    · rename_i hall
      cases h
      obtain ⟨s, hs, hx⟩ := firstIdx_spec x sc k hk
      refine ⟨⟨toD s, by simp [hs], hx⟩, ?_⟩
      intro j d hj hd
      simp only [List.getElem?_map, Option.map_eq_some_iff] at hd
      obtain ⟨s', hs', rfl⟩ := hd
      have hmem : s' ∈ sc.take k := by
        rw [List.mem_iff_getElem?]
        exact ⟨j, by rw [List.getElem?_take]; simp [hj, hs']⟩
      have := List.all_eq_true.mp hall s' hmem
      simpa [toD] using this
    · cases h

theorem res_valid : ∀ (e : Tm) (sc : List Sc) (e' : Tm) (sc' : List Sc), res sc e = some (e', sc') →
    VA (sc.map toD) e' (sc'.map toD) := by
  intro e
  induction e with
  | int i => intro sc e' sc' h; simp [res] at h; obtain ⟨rfl, rfl⟩ := h; exact VA.int
  | var x s =>
    intro sc e' sc' h
    simp only [res, Option.map_eq_some_iff] at h
    obtain ⟨a, ha, heq⟩ := h
    cases heq
    exact VA.var (annot_valid ha)
  | define x e ih =>
    intro sc e' sc' h
    simp only [res] at h
    split at h
    · rename_i e1 mu ma tl hr
      split at h
      · rename_i hc
        cases h
        have := ih sc e1 ((mu, ma) :: tl) hr
        simp only [List.map_cons] at this ⊢
        exact VA.define (d := toD (mu, ma)) this (by simpa [toD] using hc)
      · cases h
    · cases h
  | let_ x e body ihe ihb =>
    intro sc e' sc' h
    simp only [res] at h
    split at h
    · rename_i e1 sc1 hr
      split at h
      · rename_i b1 scb hb
        cases h
        have h1 := ihe sc e1 _ hr
        have h2 := ihb _ b1 scb hb
        simp only [List.map_cons] at h2
        exact VA.let_ (m := fun y => y ∈ x :: defs body) h1 (by simp) h2
      · cases h
    · cases h
  | fn x body ih =>
    intro sc e' sc' h
    simp only [res] at h
    split at h
    · rename_i b1 scb hb
      cases h
      have h2 := ih _ b1 scb hb
      simp only [List.map_cons] at h2
      exact VA.fn (m := fun y => y ∈ x :: defs body) (by simp) h2
    · cases h
  | app f a ihf iha =>
    intro sc e' sc' h
    simp only [res] at h
    split at h
    · rename_i f1 sc1 hf
      split at h
      · rename_i a1 sc2 ha
        cases h
        exact VA.app (ihf sc f1 _ hf) (iha _ a1 _ ha)
      · cases h
    · cases h
  | set x s e ih =>
    intro sc e' sc' h
    simp only [res] at h
    split at h
    · rename_i e1 sc1 hr
      simp only [Option.map_eq_some_iff] at h
      obtain ⟨a, ha, heq⟩ := h
      cases heq
      exact VA.set (ih sc e1 _ hr) (annot_valid ha)
    · cases h
  | seq a b iha ihb =>
    intro sc e' sc' h
    simp only [res] at h
    split at h
    · rename_i a1 sc1 ha
      split at h
      · rename_i b1 sc2 hb
        cases h
        exact VA.seq (iha sc a1 _ ha) (ihb _ b1 _ hb)
      · cases h
    · cases h
  | ifz c a b ihc iha ihb =>
    intro sc e' sc' h
    simp only [res] at h
    split at h
    · rename_i c1 sc1 hc
      split at h
      · rename_i a1 sca b1 scb ha hb
        split at h
        · rename_i heq
          cases h
          obtain ⟨rfl, rfl⟩ := heq
          exact VA.ifz (ihc sc c1 _ hc) (iha _ a1 _ ha) (ihb _ b1 _ hb)
        · cases h
      · cases h
    · cases h


/-- initial state: one global frame (id 0), no bindings -/
def st0 : St := { heap := [{ vars := [], parent := none }], env := 0 }

theorem init_ok (may : List String) : HeapOK st0.heap [fun x => x ∈ may] ∧
    Chain st0.heap [fun x => x ∈ may] (some st0.env) ([([], may)].map toD) := by
  refine ⟨⟨?_, rfl, ?_, ?_⟩, ?_⟩
  · intro id fr h p hp
    cases id with
    | zero => simp [st0] at h; subst h; simp at hp
    | succ i => simp [st0] at h
  · intro id fr m h _ x hx
    cases id with
    | zero => simp [st0] at h; subst h; simp [Frame.has, List.lookup] at hx
    | succ i => simp [st0] at h
  · intro id fr h q hq
    cases id with
    | zero => simp [st0] at h; subst h; simp at hq
    | succ i => simp [st0] at h
  · exact Chain.cons (fr := { vars := [], parent := none }) (d := toD ([], may)) (by simp [st0]) (by simp [toD, st0])
      (by intro x hx; simp [toD] at hx) Chain.nil

/-- **End-to-end**: for every program the checked static pass accepts, evaluating the annotated program with
    resolved lookups equals evaluating it with purely dynamic lookups (same value, same heap, same errors). -/
theorem resolve_preserves (n : Nat) (e e' : Tm) (sc' : List Sc)
    (h : res [([], defs e)] e = some (e', sc')) :
    eval true n st0 e' = eval false n st0 e' :=
  (main n st0 _ e' _ _ (init_ok (defs e)).1 (init_ok (defs e)).2 (res_valid e _ e' sc' h)).1

-- non-vacuity 1: assignment two frames below its binding, local define shadowing a global *before* use: accepted, value 7
def prog1 : Tm :=
  .seq (.define "x" (.int 1))
    (.seq (.app (.fn "y" (.seq (.define "x" (.int 2)) (.let_ "z" (.int 3) (.set "x" none (.int 7))))) (.int 0))
      (.var "x" none))
example : (res [([], defs prog1)] prog1).isSome = true := by decide
def getInt : Res → Option Int
  | .ok (.int i, _) => some i
  | _ => none
example : ∃ e' sc', res [([], defs prog1)] prog1 = some (e', sc') ∧ getInt (eval true 30 st0 e') = some 1 := by
  refine ⟨_, _, rfl, ?_⟩
  decide

-- non-vacuity 2: the capture-before-later-define program is *rejected* by the check
def prog2 : Tm :=
  .seq (.define "x" (.int 1))
    (.app (.fn "y" (.seq (.define "h" (.fn "u" (.var "x" none))) (.seq (.define "x" (.int 2)) (.app (.var "h" none) (.int 0))))) (.int 0))
example : res [([], defs prog2)] prog2 = none := by decide

end R2
