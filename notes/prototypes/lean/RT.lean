/-! Prototype: scannerless reader / printer round trip on a reduced language (C11 pattern) -/
namespace RT

inductive Sx where
  | nat (n : Nat)
  | sym (cs : List Char)
  | list (xs : List Sx)
  | quote (e : Sx)
  deriving Repr

def symChars : List Char := "abcdefghijklmnopqrstuvwxyzABCDEFGHIJKLMNOPQRSTUVWXYZ_.".toList
def digChars : List Char := "0123456789".toList
def isSymC (c : Char) : Bool := symChars.contains c
def isDig (c : Char) : Bool := digChars.contains c

/-- take the longest prefix satisfying p -/
def span (p : Char → Bool) : List Char → List Char × List Char
  | [] => ([], [])
  | c :: cs => if p c then let (a, b) := span p cs; (c :: a, b) else ([], c :: cs)

def digitsToNat (ds : List Char) : Nat := ds.foldl (fun acc c => 10 * acc + (c.toNat - '0'.toNat)) 0

def skipWs : List Char → List Char
  | ' ' :: cs => skipWs cs
  | cs => cs

mutual
/-- parse one expression (after skipping leading blanks) -/
def parse : Nat → List Char → Option (Sx × List Char)
  | 0, _ => none
  | fuel+1, cs =>
    match skipWs cs with
    | [] => none
    | '(' :: r => (parseList fuel r).map (fun (xs, r') => (.list xs, r'))
    | '\'' :: r => (parse fuel r).map (fun (e, r') => (.quote e, r'))
    | c :: r =>
      if isDig c then
        let (ds, r') := span isDig (c :: r)
        some (.nat (digitsToNat ds), r')
      else if isSymC c then
        let (s, r') := span isSymC (c :: r)
        some (.sym s, r')
      else none
def parseList : Nat → List Char → Option (List Sx × List Char)
  | 0, _ => none
  | fuel+1, cs =>
    match skipWs cs with
    | ')' :: r => some ([], r)
    | cs' => match parse fuel cs' with
      | some (e, r) => (parseList fuel r).map (fun (es, r') => (e :: es, r'))
      | none => none
end

mutual
def pr : Sx → List Char
  | .nat n => (Nat.toDigits 10 n)
  | .sym s => s
  | .quote e => '\'' :: pr e
  | .list xs => '(' :: prList xs
def prList : List Sx → List Char
  | [] => [')']
  | [x] => pr x ++ [')']
  | x :: y :: r => pr x ++ ' ' :: prList (y :: r)
end

mutual
def size : Sx → Nat
  | .nat _ => 1 | .sym _ => 1 | .quote e => size e + 1 | .list xs => sizeList xs + 1
def sizeList : List Sx → Nat
  | [] => 1
  | x :: r => size x + sizeList r + 1
end

-- well-formed: symbols are non-empty words of symbol chars
mutual
def WF : Sx → Prop
  | .nat _ => True
  | .sym s => s ≠ [] ∧ ∀ c ∈ s, isSymC c = true
  | .quote e => WF e
  | .list xs => WFL xs
def WFL : List Sx → Prop
  | [] => True
  | x :: r => WF x ∧ WFL r
end

/-- what may follow a printed expression -/
def Delim : List Char → Prop
  | [] => True
  | c :: _ => c = ' ' ∨ c = ')'

theorem span_append (p : Char → Bool) (s rest : List Char) (hs : ∀ c ∈ s, p c = true)
    (hr : ∀ c r, rest = c :: r → p c = false) : span p (s ++ rest) = (s, rest) := by
  induction s with
  | nil =>
    cases rest with
    | nil => rfl
    | cons c r => simp [span, hr c r rfl]
  | cons c s ih =>
    have hc : p c = true := hs c (by simp)
    have := ih (fun c' h => hs c' (by simp [h]))
    simp [span, hc, this]


theorem digitsToNat_eq (ds : List Char) : digitsToNat ds = Nat.ofDigitChars 10 ds 0 := rfl

theorem skipWs_nonblank (c : Char) (r : List Char) (h : c ≠ ' ') : skipWs (c :: r) = c :: r := by
  unfold skipWs
  split
  · rename_i heq; simp at heq; exact absurd heq.1 h
  · rfl

theorem Delim.notDig {rest} (h : Delim rest) : ∀ c r, rest = c :: r → isDig c = false := by
  intro c r e; subst e
  rcases h with h | h <;> subst h <;> decide

theorem Delim.notSym {rest} (h : Delim rest) : ∀ c r, rest = c :: r → isSymC c = false := by
  intro c r e; subst e
  rcases h with h | h <;> subst h <;> decide

theorem dig_props : ∀ c ∈ digChars, c ≠ ' ' ∧ c ≠ '(' ∧ c ≠ '\'' ∧ c ≠ ')' := by decide
theorem sym_props : ∀ c ∈ symChars, c ≠ ' ' ∧ c ≠ '(' ∧ c ≠ '\'' ∧ c ≠ ')' ∧ isDig c = false := by decide

theorem dig_not_blank {c : Char} (h : isDig c = true) : c ≠ ' ' ∧ c ≠ '(' ∧ c ≠ '\'' ∧ c ≠ ')' :=
  dig_props c (by simpa [isDig] using h)
theorem sym_not_special {c : Char} (h : isSymC c = true) : c ≠ ' ' ∧ c ≠ '(' ∧ c ≠ '\'' ∧ c ≠ ')' ∧ isDig c = false :=
  sym_props c (by simpa [isSymC] using h)

theorem toDigits_isDig (n : Nat) : ∀ c ∈ Nat.toDigits 10 n, isDig c = true := by
  intro c hc
  have := Nat.isDigit_of_mem_toDigits (by decide) (by decide) hc
  -- Char.isDigit ↔ membership in the table
  have key : ∀ c : Char, c.isDigit = true → isDig c = true := by
    intro c h
    simp only [Char.isDigit, Bool.and_eq_true, decide_eq_true_eq] at h
    have h1 : 48 ≤ c.val.toNat := by simpa [UInt32.le_iff_toNat_le] using h.1
    have h2 : c.val.toNat ≤ 57 := by simpa [UInt32.le_iff_toNat_le] using h.2
    have : c = Char.ofNat c.val.toNat := by simp
    rw [this]
    generalize c.val.toNat = k at *
    have hk : k = 48 ∨ k = 49 ∨ k = 50 ∨ k = 51 ∨ k = 52 ∨ k = 53 ∨ k = 54 ∨ k = 55 ∨ k = 56 ∨ k = 57 := by omega
    rcases hk with rfl|rfl|rfl|rfl|rfl|rfl|rfl|rfl|rfl|rfl <;> decide
  exact key c this


theorem toDigits_head (n : Nat) : ∃ c r, Nat.toDigits 10 n = c :: r ∧ isDig c = true := by
  have hne := @Nat.toDigits_ne_nil n 10
  match h : Nat.toDigits 10 n with
  | [] => exact absurd h hne
  | c :: r => exact ⟨c, r, rfl, toDigits_isDig n c (by simp [h])⟩


theorem parse_atom (fuel : Nat) (c : Char) (r : List Char) (h1 : c ≠ ' ') (h2 : c ≠ '(') (h3 : c ≠ '\'') :
    parse (fuel+1) (c :: r) =
      if isDig c then some (.nat (digitsToNat (span isDig (c :: r)).1), (span isDig (c :: r)).2)
      else if isSymC c then some (.sym (span isSymC (c :: r)).1, (span isSymC (c :: r)).2)
      else none := by
  simp only [parse, skipWs_nonblank c r h1]

theorem parseList_step (fuel : Nat) (c : Char) (r : List Char) (h1 : c ≠ ' ') (h4 : c ≠ ')') :
    parseList (fuel+1) (c :: r) =
      match parse fuel (c :: r) with
      | some (e, r') => (parseList fuel r').map (fun (es, r'') => (e :: es, r''))
      | none => none := by
  simp only [parseList, skipWs_nonblank c r h1]
  split
  · rename_i heq; simp only [List.cons.injEq] at heq; exact absurd heq.1 h4
  · rfl

theorem parseList_blank (fuel : Nat) (cs : List Char) : parseList fuel (' ' :: cs) = parseList fuel cs := by
  cases fuel with
  | zero => simp [parseList]
  | succ f => simp only [parseList, skipWs]

/-- first character of a printed expression is never blank or ')' -/
theorem pr_head (e : Sx) (hw : WF e) : ∃ c r, pr e = c :: r ∧ c ≠ ' ' ∧ c ≠ ')' := by
  cases e with
  | nat n =>
    obtain ⟨c, r, hcr, hc⟩ := toDigits_head n
    obtain ⟨h1, _, _, h4⟩ := dig_not_blank hc
    exact ⟨c, r, by simp [pr, hcr], h1, h4⟩
  | sym cs =>
    obtain ⟨hne, hall⟩ := hw
    match cs, hne, hall with
    | c :: r, _, hall =>
      obtain ⟨h1, _, _, h4, _⟩ := sym_not_special (hall c (by simp))
      exact ⟨c, r, by simp [pr], h1, h4⟩
  | quote e => exact ⟨'\'', pr e, by simp [pr], by decide, by decide⟩
  | list xs => exact ⟨'(', prList xs, by simp [pr], by decide, by decide⟩

mutual
theorem rtE : ∀ (e : Sx), WF e → ∀ fuel rest, size e ≤ fuel → Delim rest →
    parse fuel (pr e ++ rest) = some (e, rest)
  | .nat n, _, fuel, rest, hf, hd => by
    obtain ⟨c, r, hcr, hc⟩ := toDigits_head n
    obtain ⟨h1, h2, h3, h4⟩ := dig_not_blank hc
    cases fuel with
    | zero => simp [size] at hf
    | succ fuel =>
      have hspan := span_append isDig (Nat.toDigits 10 n) rest (toDigits_isDig n) hd.notDig
      simp only [pr]
      rw [hcr] at hspan ⊢
      simp only [List.cons_append] at hspan ⊢
      rw [parse_atom fuel c _ h1 h2 h3, hspan]
      simp [hc, digitsToNat_eq, ← hcr]
  | .sym cs, hw, fuel, rest, hf, hd => by
    obtain ⟨hne, hall⟩ := hw
    cases fuel with
    | zero => simp [size] at hf
    | succ fuel =>
      match cs, hne, hall with
      | c :: r, _, hall =>
        have hc : isSymC c = true := hall c (by simp)
        obtain ⟨h1, h2, h3, h4, h5⟩ := sym_not_special hc
        have hspan := span_append isSymC (c :: r) rest hall hd.notSym
        simp only [pr, List.cons_append] at hspan ⊢
        rw [parse_atom fuel c _ h1 h2 h3, hspan]
        simp [hc, h5]
  | .quote e, hw, fuel, rest, hf, hd => by
    cases fuel with
    | zero => simp [size] at hf
    | succ fuel =>
      have ih := rtE e hw fuel rest (by simp [size] at hf; omega) hd
      simp only [pr, parse, List.cons_append, skipWs_nonblank '\'' _ (by decide)]
      simp [ih]
  | .list xs, hw, fuel, rest, hf, hd => by
    cases fuel with
    | zero => simp [size] at hf
    | succ fuel =>
      have ih := rtL xs hw fuel rest (by simp [size] at hf; omega)
      simp only [pr, parse, List.cons_append, skipWs_nonblank '(' _ (by decide)]
      simp [ih]
theorem rtL : ∀ (xs : List Sx), WFL xs → ∀ fuel rest, sizeList xs ≤ fuel →
    parseList fuel (prList xs ++ rest) = some (xs, rest)
  | [], _, fuel, rest, hf => by
    cases fuel with
    | zero => simp [sizeList] at hf
    | succ fuel => simp [prList, parseList, skipWs_nonblank ')' _ (by decide)]
  | [x], hw, fuel, rest, hf => by
    cases fuel with
    | zero => simp [sizeList] at hf
    | succ fuel =>
      have ihx := rtE x hw.1 fuel (')' :: rest) (by simp [sizeList] at hf; omega) (Or.inr rfl)
      obtain ⟨c, r, hcr, h1, h4⟩ := pr_head x hw.1
      cases fuel with
      | zero => simp [sizeList] at hf
      | succ fuel' =>
        have hnil : parseList (fuel'+1) (')' :: rest) = some ([], rest) := by
          simp [parseList, skipWs_nonblank ')' _ (by decide)]
        simp only [prList, List.append_assoc, List.singleton_append]
        rw [hcr] at ihx ⊢
        simp only [List.cons_append] at ihx ⊢
        rw [parseList_step _ c _ h1 h4, ihx]
        simp [hnil]
  | x :: y :: r, hw, fuel, rest, hf => by
    cases fuel with
    | zero => simp [sizeList] at hf
    | succ fuel =>
      have ihx := rtE x hw.1 fuel (' ' :: (prList (y :: r) ++ rest)) (by simp [sizeList] at hf; omega) (Or.inl rfl)
      have ihr := rtL (y :: r) hw.2 fuel rest (by simp [sizeList] at hf ⊢; omega)
      obtain ⟨c, r', hcr, h1, h4⟩ := pr_head x hw.1
      simp only [prList, List.append_assoc, List.cons_append]
      rw [hcr] at ihx ⊢
      simp only [List.cons_append] at ihx ⊢
      rw [parseList_step _ c _ h1 h4, ihx]
      simp only [parseList_blank]
      try simp only [List.append_assoc] at ihr
      simp [ihr]
end

end RT
