/-! Prototype of the VCD dump-section fold and its pointwise spec (C01 core) -/
namespace V

abbrev Col := List String            -- values, oldest first; models self.data[id] (with the initial 'x' cell)
abbrev Data := List (String × Col)   -- per id, in all_ids order

/-- abstract dump items -/
inductive DItem where
  | time (t : Nat)
  | scalar (v : Char) (id : String)
  | vector (bits : String) (id : String)
  | cmd (kw : String)                 -- $dumpvars, $end, ...
  deriving Repr

/-- rendering to tokens -/
def DItem.render : DItem → List String
  | .time t => ["#" ++ toString t]
  | .scalar v id => [String.singleton v ++ id]
  | .vector b id => ["b" ++ b, id]
  | .cmd kw => [kw]

/-! ### model of the code, on structured items (token-level classification is a separate lemma) -/

def setLast (c : Col) (v : String) : Col :=
  match c.reverse with
  | [] => []            -- unreachable: columns are never empty
  | _ :: r => (v :: r).reverse

def copyLast (c : Col) : Col :=
  match c.getLast? with
  | some v => c ++ [v]
  | none => c

def Data.update (d : Data) (id : String) (v : String) : Data :=
  d.map (fun (k, c) => if k = id then (k, setLast c v) else (k, c))

structure DS where
  data : Data
  ts : List Nat

def stepItem (s : DS) : DItem → DS
  | .time t => { data := s.data.map (fun (k, c) => (k, copyLast c)), ts := s.ts ++ [t] }
  | .scalar v id => { s with data := s.data.update id (String.singleton v) }
  | .vector b id => { s with data := s.data.update id b }
  | .cmd _ => s

def runDump (ids : List String) (items : List DItem) : DS :=
  items.foldl stepItem { data := ids.map (fun i => (i, ["x"])), ts := [] }

/-! ### spec: pointwise -/

/-- last value assigned to `id` in `items`, else `dflt` -/
def lastAssign (id : String) (dflt : String) : List DItem → String
  | [] => dflt
  | .scalar v i :: r => lastAssign id (if i = id then String.singleton v else dflt) r
  | .vector b i :: r => lastAssign id (if i = id then b else dflt) r
  | _ :: r => lastAssign id dflt r

/-- the column the code should hold after `items`: one cell for the initial row and one per time marker;
    cell j = last assignment before the (j+1)-th ... computed recursively: -/
def specCol (id : String) : List DItem → Col → Col
  | [], c => c
  | .time _ :: r, c => specCol id r (copyLast c)
  | .scalar v i :: r, c => specCol id r (if i = id then setLast c (String.singleton v) else c)
  | .vector b i :: r, c => specCol id r (if i = id then setLast c b else c)
  | .cmd _ :: r, c => specCol id r c

theorem update_lookup (d : Data) (id k v) (hk : (d.lookup k).isSome) (hnd : (d.map (·.1)).Nodup) :
    (d.update id v).lookup k = (d.lookup k).map (fun c => if k = id then setLast c v else c) := by
  induction d with
  | nil => simp at hk
  | cons p d ih =>
    obtain ⟨k', c'⟩ := p
    simp only [Data.update, List.map_cons]
    by_cases h : k = k'
    · subst h
      by_cases h2 : k = id
      · subst h2; simp [List.lookup]
      · simp [List.lookup, h2]
    · have hne : (k == k') = false := by simpa using h
      have : (List.lookup k ((k', c') :: d)) = List.lookup k d := by simp [List.lookup, hne]
      rw [this] at hk ⊢
      have hnd' : (d.map (·.1)).Nodup := by
        simp only [List.map_cons, List.nodup_cons] at hnd; exact hnd.2
      have := ih hk hnd'
      simp only [Data.update] at this
      split <;> simp [List.lookup, hne, this]


theorem map_copy_lookup (d : Data) (k : String) :
    (d.map (fun (k, c) => (k, copyLast c))).lookup k = (d.lookup k).map copyLast := by
  induction d with
  | nil => simp [List.lookup]
  | cons p d ih =>
    obtain ⟨k', c'⟩ := p
    by_cases h : (k == k') = true
    · simp [List.lookup, h]
    · have : (k == k') = false := by simpa using h
      simp [List.lookup, this, ih]

theorem keys_update (d : Data) (id v) : (d.update id v).map (·.1) = d.map (·.1) := by
  induction d with
  | nil => rfl
  | cons p d ih =>
    obtain ⟨k', c'⟩ := p
    simp only [Data.update, List.map_cons] at ih ⊢
    split <;> simp [ih]

theorem keys_copy (d : Data) : (d.map (fun (k, c) => (k, copyLast c))).map (·.1) = d.map (·.1) := by
  induction d with
  | nil => rfl
  | cons p d ih => obtain ⟨k', c'⟩ := p; simp [ih]

/-- generalised fold invariant -/
theorem fold_spec (id : String) :
    ∀ (items : List DItem) (s : DS) (c : Col), (s.data.map (·.1)).Nodup → s.data.lookup id = some c →
      ((items.foldl stepItem s).data.lookup id = some (specCol id items c)) := by
  intro items
  induction items with
  | nil => intro s c _ h; simpa [specCol] using h
  | cons it items ih =>
    intro s c hnd h
    simp only [List.foldl_cons]
    cases it with
    | time t =>
      simp only [specCol]
      apply ih
      · show ((s.data.map (fun (k, c) => (k, copyLast c))).map (·.1)).Nodup
        rw [keys_copy]; exact hnd
      · simp [stepItem, map_copy_lookup, h]
    | scalar v i =>
      simp only [specCol]
      apply ih
      · show ((s.data.update i _).map (·.1)).Nodup
        rw [keys_update]; exact hnd
      · simp only [stepItem]
        rw [update_lookup _ _ _ _ (by simp [h]) hnd, h]
        by_cases hi : i = id
        · subst hi; simp
        · have : ¬ id = i := fun e => hi e.symm
          simp [hi, this]
    | vector b i =>
      simp only [specCol]
      apply ih
      · show ((s.data.update i _).map (·.1)).Nodup
        rw [keys_update]; exact hnd
      · simp only [stepItem]
        rw [update_lookup _ _ _ _ (by simp [h]) hnd, h]
        by_cases hi : i = id
        · subst hi; simp
        · have : ¬ id = i := fun e => hi e.symm
          simp [hi, this]
    | cmd kw =>
      simp only [specCol]
      exact ih _ _ hnd h

end V
