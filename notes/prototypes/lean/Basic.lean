/-! Prototype: values, state, open-recursion evaluator -/
namespace W

inductive Op where
  | add | eq | iff | reval | step | find | quote | doo | print | gt | andd
  deriving DecidableEq, Repr, Inhabited

inductive Sx where
  | none
  | int (i : Int)
  | bool (b : Bool)
  | str (s : String)
  | sym (name : String) (steps : Option Nat)
  | op (o : Op)
  | list (xs : List Sx)
  deriving Repr, Inhabited

structure Trace where
  tid : String
  index : Nat
  maxIndex : Nat
  ts : List Nat
  data : List (String × List String)
  deriving Repr, Inhabited

structure St where
  traces : List Trace
  out : List String
  deriving Repr, Inhabited

inductive Err where
  | fuel | assert (msg : String) | other (msg : String) | unsupported
  deriving Repr, Inhabited, DecidableEq

abbrev Res := Except Err (Sx × St)

def truthy : Sx → Bool
  | .none => false
  | .int i => i != 0
  | .bool b => b
  | .str s => s != ""
  | .list xs => !xs.isEmpty
  | _ => true

/-- Trace.step -/
def Trace.step (t : Trace) (k : Int) : Trace × Bool :=
  let r : Int := (t.index : Int) + k
  if r < 0 ∨ r > (t.maxIndex : Int) then (t, false) else ({ t with index := r.toNat }, true)

def stepAll (ts : List Trace) (k : Int) : List Trace × Bool :=
  let rs := ts.map (fun t => t.step k)
  (rs.map (·.1), rs.all (·.2))

def indices (ts : List Trace) : List Nat := ts.map (·.index)

def restore : List Trace → List Nat → List Trace
  | t :: ts, i :: is => { t with index := i } :: restore ts is
  | ts, _ => ts

def inRangeAll (ts : List Trace) (k : Int) : Bool :=
  ts.all (fun t => let r : Int := (t.index : Int) + k; !(r > (t.maxIndex : Int) || r < 0))

def bitsToVal (s : String) : Sx :=
  if s.length > 0 ∧ s.toList.all (fun c => c == '0' || c == '1') then
    .int (s.toList.foldl (fun acc c => 2 * acc + (if c == '1' then 1 else 0)) 0)
  else .str s

def signalValue (t : Trace) (name : String) : Option Sx :=
  if name == "INDEX" then some (.int t.index)
  else if name == "MAX-INDEX" then some (.int t.maxIndex)
  else if name == "TS" then (t.ts[t.index]?).map (fun n => .int n)
  else match t.data.lookup name with
    | some vals => (vals[t.index]?).map bitsToVal
    | none => none

def evalList (rec : St → Sx → Res) : St → List Sx → Except Err (List Sx × St)
  | st, [] => .ok ([], st)
  | st, e :: es => do
    let (v, st1) ← rec st e
    let (vs, st2) ← evalList rec st1 es
    pure (v :: vs, st2)

/-- find loop on the single trace (first) : remaining steps bound -/
def findLoop (rec : St → Sx → Res) (c : Sx) : Nat → St → List Nat → Except Err (List Nat × St)
  | 0, st, acc => .ok (acc, st)
  | k+1, st, acc => do
    let (v, st1) ← rec st c
    match st1.traces with
    | [] => .error (.other "no trace")
    | t :: rest =>
      let acc' := if truthy v then acc ++ [t.index] else acc
      let (t', ok) := t.step 1
      if ok then findLoop rec c k { st1 with traces := t' :: rest } acc'
      else .ok (acc', st1)

def opReval (rec : St → Sx → Res) (st : St) (args : List Sx) : Res :=
  match args with
  | [e, k] => do
    let (kv, st1) ← rec st k
    match kv with
    | .int off =>
      if !inRangeAll st1.traces off then pure (.bool false, st1)
      else
        let saved := indices st1.traces
        let (v, st2) ← rec { st1 with traces := (stepAll st1.traces off).1 } e
        pure (v, { st2 with traces := restore st2.traces saved })
    | _ => .error (.assert "reval: second argument must evaluate to int")
  | _ => .error (.assert "reval: expects two arguments")

def opFind (rec : St → Sx → Res) (st : St) (args : List Sx) : Res :=
  match args, st.traces with
  | [c], [t] => do
    let (found, st1) ← findLoop rec c (t.maxIndex - t.index + 1) st []
    pure (.list (found.map (fun i => .int (Int.ofNat i))), { st1 with traces := restore st1.traces [t.index] })
  | _, _ => .error .unsupported

def evalStep (rec : St → Sx → Res) (st : St) : Sx → Res
  | .sym name _ =>
    match st.traces with
    | [t] => match signalValue t name with
      | some v => .ok (v, st)
      | none => .error (.assert "undefined")
    | _ => .error .unsupported
  | .list (.op o :: args) =>
    match o with
    | .quote => match args with | [a] => .ok (a, st) | _ => .error (.assert "quote")
    | .add => do
      let (vs, st1) ← evalList rec st args
      let r ← vs.foldlM (fun acc v => match acc, v with
          | .int a, .int b => pure (Sx.int (a+b))
          | _, _ => throw Err.unsupported) (Sx.int 0)
      pure (r, st1)
    | .eq => do
      let (vs, st1) ← evalList rec st args
      match vs with
      | [.int a, .int b] => pure (.bool (a == b), st1)
      | _ => .error .unsupported
    | .gt => do
      let (vs, st1) ← evalList rec st args
      match vs with
      | [.int a, .int b] => pure (.bool (a > b), st1)
      | _ => .error .unsupported
    | .iff => match args with
      | [c, a, b] => do
        let (cv, st1) ← rec st c
        if truthy cv then rec st1 a else rec st1 b
      | _ => .error (.assert "if")
    | .andd => match args with
      | [a, b] => do
        let (av, st1) ← rec st a
        if !truthy av then pure (.bool false, st1) else do
          let (bv, st2) ← rec st1 b
          pure (.bool (truthy bv), st2)
      | _ => .error .unsupported
    | .doo => do
      let (vs, st1) ← evalList rec st args
      pure (vs.getLast?.getD .none, st1)
    | .print => do
      let (vs, st1) ← evalList rec st args
      pure (.none, { st1 with out := st1.out ++ [toString (repr vs)] })
    | .step => match args with
      | [] => let (ts, ok) := stepAll st.traces 1; .ok (.bool ok, { st with traces := ts })
      | [k] => do
        let (kv, st1) ← rec st k
        match kv with
        | .int off => let (ts, ok) := stepAll st1.traces off; pure (.bool ok, { st1 with traces := ts })
        | _ => .error .unsupported
      | _ => .error .unsupported
    | .reval => opReval rec st args
    | .find => opFind rec st args
  | .list _ => .error .unsupported
  | v => .ok (v, st)

def eval : Nat → St → Sx → Res
  | 0, _, _ => .error .fuel
  | n+1, st, e => evalStep (eval n) st e

end W
