/-! Prototype for C15: symbolic execution of a *computing* macro body (`when`) through a fuel evaluator -/
inductive Sx where
 | int (i : Int) | sym (n : String) | op (o : String) | list (xs : List Sx) | unq (e : Sx) | unqs (e : Sx)

abbrev Env := List (String × Sx)

def lookup (env : Env) (n : String) : Option Sx :=
  match env with
  | [] => none
  | (k, v) :: r => if k = n then some v else lookup r n

/-- quasiquote over a list of elements, evaluating unquotes with `rec` -/
def qqList (rec : Env → Sx → Option Sx) (qq : Sx → Option Sx) (env : Env) : List Sx → Option (List Sx)
  | [] => some []
  | .unq e :: r => do let v ← rec env e; let r' ← qqList rec qq env r; pure (v :: r')
  | .unqs e :: r => do
      let v ← rec env e
      let r' ← qqList rec qq env r
      match v with
      | .list vs => pure (vs ++ r')
      | _ => none
  | x :: r => do let x' ← qq x; let r' ← qqList rec qq env r; pure (x' :: r')

def qq (rec : Env → Sx → Option Sx) (env : Env) : Nat → Sx → Option Sx
  | 0, _ => none
  | d+1, .list xs => (qqList rec (qq rec env d) env xs).map .list
  | _+1, e => some e

def letBind (rec : Env → Sx → Option Sx) : Env → List Sx → Option Env
  | env, [] => some env
  | env, .list [.sym x, e] :: r => do let v ← rec env e; letBind rec ((x, v) :: env) r
  | _, _ => none

def evalStep (n : Nat) (rec : Env → Sx → Option Sx) (env : Env) : Sx → Option Sx
  | .int i => some (.int i)
  | .sym x => lookup env x
  | .list [.op "quasiquote", t] => qq rec env n t
  | .list [.op "rest", e] => do
      match ← rec env e with
      | .list (_ :: r) => pure (.list r)
      | .list [] => pure (.list [])
      | _ => none
  | .list [.op "slice", e, i] => do
      let v ← rec env e
      let iv ← rec env i
      match v, iv with
      | .list xs, .int k => if k < 0 then none else xs[k.toNat]?
      | _, _ => none
  | .list (.op "let" :: .list bs :: body) => do
      let env' ← letBind rec env bs
      match body with
      | [b] => rec env' b
      | _ => none
  | _ => none

def eval : Nat → Env → Sx → Option Sx
  | 0, _, _ => none
  | n+1, env, e => evalStep n (eval n) env e

theorem eval_succ (n env e) : eval (n+1) env e = evalStep n (eval n) env e := rfl

-- (let ([condition args[0]] [body (rest args)]) `(if ,condition (do ,@body)))
def whenBody : Sx :=
  .list [.op "let",
    .list [.list [.sym "condition", .list [.op "slice", .sym "args", .int 0]],
           .list [.sym "body", .list [.op "rest", .sym "args"]]],
    .list [.op "quasiquote", .list [.op "if", .unq (.sym "condition"), .list [.op "do", .unqs (.sym "body")]]]]

theorem when_expand (c : Sx) (body : List Sx) (n : Nat) :
    eval (n+6) [("args", .list (c :: body))] whenBody = some (.list [.op "if", c, .list (.op "do" :: body)]) := by
  simp [whenBody, eval_succ, evalStep, letBind, lookup, qq, qqList, bind, Option.bind]
#print axioms when_expand
