import P.Basic
open W

/-- tiny prefix-serialised AST reader: tokens separated by spaces:
  i<n> int, s<hex> str, y<name> sym, o<op> op, ( ... ) list, N none, T/F bool -/
partial def parseToks : List String → Option (Sx × List String)
  | [] => none
  | t :: rest =>
    if t == "(" then
      let rec go (acc : List Sx) (ts : List String) : Option (Sx × List String) :=
        match ts with
        | ")" :: r => some (.list acc.reverse, r)
        | _ => match parseToks ts with
          | some (e, r) => go (e :: acc) r
          | none => none
      go [] rest
    else if t == "N" then some (.none, rest)
    else if t == "T" then some (.bool true, rest)
    else if t == "F" then some (.bool false, rest)
    else match t.toList with
      | 'i' :: cs => (String.ofList cs).toInt?.map (fun i => (.int i, rest))
      | 'y' :: cs => some (.sym (String.ofList cs) none, rest)
      | 's' :: cs => some (.str (String.ofList cs), rest)
      | 'o' :: cs =>
        let n := String.ofList cs
        let o? : Option Op := match n with
          | "+" => some .add | "=" => some .eq | "if" => some .iff | "reval" => some .reval | "step" => some .step
          | "find" => some .find | "quote" => some .quote | "do" => some .doo | "print" => some .print | ">" => some .gt | "&&" => some .andd
          | _ => none
        o?.map (fun o => (.op o, rest))
      | _ => none

def showSx : Sx → String
  | .none => "N" | .int i => s!"i{i}" | .bool b => if b then "T" else "F" | .str s => s!"s{s}"
  | .sym n _ => s!"y{n}" | .op _ => "o?" | .list xs => "( " ++ " ".intercalate (xs.attach.map (fun ⟨x, _⟩ => showSx x)) ++ " )"

partial def loop (h : IO.FS.Stream) (st : St) (n : Nat) : IO Unit := do
  let line ← h.getLine
  if line.isEmpty then return ()
  let toks := (line.trimAscii.toString.splitOn " ").filter (· ≠ "")
  match parseToks toks with
  | some (e, _) =>
    match eval 10000 st e with
    | .ok (v, st') => IO.println (showSx v); loop h st' (n+1)
    | .error er => IO.println s!"ERR {repr er}"; loop h st (n+1)
  | none => IO.println "bad"; loop h st (n+1)

def main : IO Unit := do
  let t : Trace := { tid := "t", index := 0, maxIndex := 999, ts := List.range 1000, data := [("clk", (List.range 1000).map (fun i => if i % 2 == 0 then "0" else "1")), ("cnt", (List.range 1000).map (fun i => String.ofList (Nat.toDigits 2 i)))] }
  loop (← IO.getStdin) { traces := [t], out := [] } 0
