import sys, random
sys.path.insert(0,'/repo'); sys.path.insert(0,'/tmp/probe')
from wal.reader import read_wal_sexpr, ParseError
from wal.ast_defs import Symbol, Operator, Unquote, UnquoteSplice, WList, operators
import rd_model
rd_model.OPERATORS = operators
def canon(x):
    if isinstance(x, bool): return x
    if isinstance(x, (WList, list)): return ('L', [canon(e) for e in x])
    if isinstance(x, Operator): return ('O', x.value)
    if isinstance(x, Symbol): return ('S', x.name)
    if isinstance(x, Unquote): return ('U', canon(x.content))
    if isinstance(x, UnquoteSplice): return ('US', canon(x.content))
    if isinstance(x, str): return ('STR', x)
    if isinstance(x, float): return ('F', x)
    return x
def impl(s):
    try: return ('ok', canon(read_wal_sexpr(s)))
    except ParseError: return ('perr',)
    except RecursionError: return ('rec',)
    except BaseException as e: return ('OTHER', type(e).__name__)
def model(s):
    try: return ('ok', rd_model.read_one(s))
    except rd_model.PErr: return ('perr',)
    except RecursionError: return ('rec',)
seed=int(sys.argv[1]); N=int(sys.argv[2])
rnd=random.Random(seed)
ATOMS=['a','b.c','x<1>','\\esc!','true','false','#t','#f','0','1','-5','+7','007','1.5','-2.','0x1F','0b101','"s"','"a\\"b"','"\\n"','+','-','*','/','&&','||','=','!=','>','<','>=','<=','!','**','if','do','let','define','reval','slice','quote','a-b','a,b','a:b','.5','..']
def gen(d):
    c=rnd.random()
    if d<=0 or c<0.3: return rnd.choice(ATOMS)
    k=rnd.choice(['list','list','list','q','qq','u','us','at','bit','sl','sc','gr','br','cb'])
    if k=='list': return '('+' '.join(gen(d-1) for _ in range(rnd.randint(0,3)))+')'
    if k=='br': return '['+' '.join(gen(d-1) for _ in range(rnd.randint(0,3)))+']'
    if k=='cb': return '{'+' '.join(gen(d-1) for _ in range(rnd.randint(0,3)))+'}'
    if k=='q': return "'"+gen(d-1)
    if k=='qq': return "`"+gen(d-1)
    if k=='u': return ","+gen(d-1)
    if k=='us': return ",@"+gen(d-1)
    if k=='at': return gen(d-1)+'@'+gen(d-1)
    if k=='bit': return gen(d-1)+'['+gen(d-1)+']'
    if k=='sl': return gen(d-1)+'['+gen(d-1)+':'+gen(d-1)+']'
    if k=='sc': return '~'+rnd.choice(['a','b.c','true','x'])
    return '#'+rnd.choice(['a','t','f','tt','b.c'])
ALPH = list("()[]{}'`,@~#:;\" \n\tab01.x+-*/=<>!&|\\_$?%^5") 
def mutate(s):
    s=list(s)
    for _ in range(rnd.randint(1,3)):
        op=rnd.random()
        if op<0.4 and s: del s[rnd.randrange(len(s))]
        elif op<0.8: s.insert(rnd.randint(0,len(s)), rnd.choice(ALPH))
        elif s: s[rnd.randrange(len(s))]=rnd.choice(ALPH)
    return ''.join(s)
bad=0; stats={}
for i in range(N):
    m=rnd.random()
    if m<0.4: s=gen(4)
    elif m<0.85: s=mutate(gen(4))
    else: s=''.join(rnd.choice(ALPH) for _ in range(rnd.randint(0,12)))
    a=impl(s); b=model(s)
    stats[a[0]]=stats.get(a[0],0)+1
    if a!=b:
        bad+=1
        if bad<=15: print(repr(s),'\n  IMPL',a,'\n  MODEL',b)
print('bad',bad,'of',N,stats)
