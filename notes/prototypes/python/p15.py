import sys, io, contextlib, itertools, random
sys.path.insert(0,'/repo')
from wal.core import Wal
from wal.reader import read_wal_sexprs
from wal.passes import expand, optimize, resolve
from wal.ast_defs import Symbol, WList, Environment, WalEvalError
import wal.eval as E, wal.implementation.core as C
FIX = len(sys.argv)>1 and sys.argv[1]=='fix'
if FIX:
    # monkeypatch exact-hop read and write
    orig_eval = E.SEval.eval
    def eval2(self, expr):
        if isinstance(expr, Symbol) and expr.steps is not None and expr.name not in self.aliases:
            env = self.environment
            for _ in range(expr.steps): env = env.parent
            try:
                return env.read(expr.name)
            except AssertionError as e:
                raise WalEvalError()
        return orig_eval(self, expr)
    E.SEval.eval = eval2
    def op_set(seval, args):
        assert args
        for arg in args:
            assert isinstance(arg, WList) and len(arg)==2
            key=arg[0]; assert isinstance(key, Symbol)
            res = seval.eval(arg[1])
            if key.steps is not None:
                d = seval.environment
                for _ in range(key.steps): d = d.parent
                d = d.is_defined(key.name)
            else:
                d = seval.environment.is_defined(key.name)
            if d: d[key.name]=res
            else: assert False, 'undef'
        return res
    C.core_operators['set']=op_set
W0 = None
def run(src, res):
    w = Wal()
    out = io.StringIO()
    try:
        with contextlib.redirect_stdout(out):
            r=None
            for s in read_wal_sexprs(src):
                e = optimize(expand(w.eval_context, s, parent=w.eval_context.global_environment))
                if res: e = resolve(e, start=w.eval_context.global_environment.environment)
                r = w.eval_context.eval(e)
        g = {k:v for k,v in w.eval_context.global_environment.environment.items() if k in ('a','b','f','g')}
        return ('ok', repr(r) if not hasattr(r,'expression') else 'clo', out.getvalue() if 'Runtime error' not in out.getvalue() else 'E', {k:(v if isinstance(v,int) else 'obj') for k,v in g.items()})
    except AssertionError: return ('refuse',)
    except BaseException as ex:
        return ('err',)
rnd = random.Random(1)
names=['a','b']
def gen(d, ctx):
    # ctx: 'top' allows define
    c = rnd.random()
    if d<=0 or c<0.2:
        return rnd.choice(names+['1','2'])
    k = rnd.choice(['let','fn','set','do','call','define','print','plus'])
    if k=='let': n=rnd.choice(names); return f"(let ([{n} {gen(d-1,'e')}]) {gen(d-1,'body')})"
    if k=='fn': n=rnd.choice(names); return f"((fn [{n}] {gen(d-1,'body')}) {gen(d-1,'e')})"
    if k=='set': return f"(set [{rnd.choice(names)} {gen(d-1,'e')}])"
    if k=='do': return f"(do {gen(d-1,ctx)} {gen(d-1,ctx)})"
    if k=='call': return f"(f)" if rnd.random()<.5 else f"(g {gen(d-1,'e')})"
    if k=='define' and ctx in ('top','body'): return f"(define {rnd.choice(names)} {gen(d-1,'e')})"
    if k=='print': return f"(print {gen(d-1,'e')})"
    return f"(+ {gen(d-1,'e')} {gen(d-1,'e')})"
bad=0; N=int(sys.argv[2]) if len(sys.argv)>2 else 3000
stats={}
for i in range(N):
    prog = f"(define a 10) (define f (fn [] {gen(3,'body')})) (define g (fn [b] {gen(3,'body')})) {gen(4,'top')} (list a)"
    r1=run(prog, True); r2=run(prog, False)
    stats[(r1[0],r2[0])]=stats.get((r1[0],r2[0]),0)+1
    if r2[0]=='ok' and r1!=r2 and r1[0]!='refuse':
        bad+=1
        if bad<=8: print(prog,'\n   RES',r1,'\n   DYN',r2)
print('bad',bad,'of',N, stats)
