"""Reference recursive-descent reader (to be ported to Lean); fuzzed against Lark."""
import re, ast

WS = ' \t\x0c\r\n'
SYM_START = set('abcdefghijklmnopqrstuvwxyzABCDEFGHIJKLMNOPQRSTUVWXYZ_.')
SYM_CONT = set('=$*/>:.-_?%§^!\\~+<>|,') | set('abcdefghijklmnopqrstuvwxyzABCDEFGHIJKLMNOPQRSTUVWXYZ0123456789_')
DIG = set('0123456789')
HEX = set('0123456789abcdefABCDEF')
OPS2 = ['**', '&&', '||', '!=', '>=', '<=']
OPS1 = ['+', '-', '*', '/', '=', '>', '<', '!']
OPERATORS = None

class PErr(Exception):
    pass

class R:
    def __init__(self, s):
        self.s = s
        self.p = 0

    def peek(self, k=0):
        return self.s[self.p + k] if self.p + k < len(self.s) else ''

    # _INTER: (ws+)? ; .*   |  ws+
    def inter1(self):
        p = self.p
        q = p
        while q < len(self.s) and self.s[q] in WS:
            q += 1
        if q < len(self.s) and self.s[q] == ';':
            q += 1
            while q < len(self.s) and self.s[q] != '\n':
                q += 1
            self.p = q
            return True
        if q > p:
            self.p = q
            return True
        return False

    def inters(self):
        n = 0
        while self.inter1():
            n += 1
        return n

    def sexpr(self, depth=0):
        self.inters()
        e = self.strict(depth)
        if self.peek() == '@':
            self.p += 1
            k = self.strict(depth)
            e = ('L', [('O', 'reval'), e, k])
        self.inters()
        return e

    def starts_strict(self):
        c = self.peek()
        return c != '' and c not in ')]}:@' and c not in WS and c != ';'

    def strict(self, depth):
        e = self.primary(depth)
        while self.peek() == '[':
            self.p += 1
            a = self.sexpr(depth + 1)
            if self.peek() == ':':
                self.p += 1
                b = self.sexpr(depth + 1)
                if self.peek() != ']':
                    raise PErr(self.p)
                self.p += 1
                e = ('L', [('O', 'slice'), e, a, b])
            elif self.peek() == ']':
                self.p += 1
                e = ('L', [('O', 'slice'), e, a])
            else:
                raise PErr(self.p)
        return e

    def lst(self, close, depth):
        items = []
        # "(" [sexpr*] ")" : zero sexprs => immediately close
        while True:
            c = self.peek()
            if c == close:
                self.p += 1
                return ('L', items)
            if c == '':
                raise PErr(self.p)
            before = self.p
            items.append(self.sexpr(depth + 1))
            if self.p == before:
                raise PErr(self.p)

    def symbol_only(self):
        c = self.peek()
        if c in SYM_START and c != '':
            q = self.p + 1
            while q < len(self.s) and self.s[q] in SYM_CONT:
                q += 1
            name = self.s[self.p:q]
            self.p = q
            return name
        if c == '\\':
            q = self.p + 1
            while q < len(self.s) and not self.s[q].isspace():
                q += 1
            if q == self.p + 1:
                raise PErr(self.p)
            name = self.s[self.p:q]
            self.p = q
            return name
        raise PErr(self.p)

    def primary(self, depth):
        c = self.peek()
        s = self.s
        if c == '':
            raise PErr(self.p)
        if c == '(':
            self.p += 1
            return self.lst(')', depth)
        if c == '[':
            self.p += 1
            return self.lst(']', depth)
        if c == '{':
            self.p += 1
            return self.lst('}', depth)
        if c == "'":
            self.p += 1
            return ('L', [('O', 'quote'), self.sexpr(depth + 1)])
        if c == '`':
            self.p += 1
            return ('L', [('O', 'quasiquote'), self.sexpr(depth + 1)])
        if c == ',':
            if self.peek(1) == '@':
                self.p += 2
                return ('US', self.sexpr(depth + 1))
            self.p += 1
            return ('U', self.sexpr(depth + 1))
        if c == '~':
            self.p += 1
            return ('L', [('O', 'resolve-scope'), ('S', self.symbol_only())])
        if c == '#':
            self.p += 1
            n = self.symbol_only()
            if n == 't':
                return True
            if n == 'f':
                return False
            return ('L', [('O', 'resolve-group'), ('S', n)])
        # regex terminals in Lark order: symbol, string, float, hex, dec, bin, escaped symbol
        if c in SYM_START or c == '\\':
            n = self.symbol_only()
            if n == 'true':
                return True
            if n == 'false':
                return False
            return ('O', n) if n in OPERATORS else ('S', n)
        if c == '"':
            m = re.compile(r'".*?(?<!\\)(\\\\)*?"').match(s, self.p)
            if not m:
                raise PErr(self.p)
            txt = m.group(0)
            self.p = m.end()
            try:
                return ('STR', ast.literal_eval(txt))
            except Exception:
                raise PErr(self.p)
        # numbers
        q = self.p
        if c in '+-' and self.peek(1) in DIG and self.peek(1) != '':
            q += 1
        if q < len(s) and s[q] in DIG:
            r = q
            while r < len(s) and s[r] in DIG:
                r += 1
            if r < len(s) and s[r] == '.':
                r2 = r + 1
                while r2 < len(s) and s[r2] in DIG:
                    r2 += 1
                txt = s[self.p:r2]
                self.p = r2
                return ('F', float(txt))
            # hex
            if q == self.p and s[q] == '0' and q + 1 < len(s) and s[q + 1] == 'x' and q + 2 < len(s) and s[q + 2] in HEX:
                r3 = q + 2
                while r3 < len(s) and s[r3] in HEX:
                    r3 += 1
                v = int(s[q:r3], 16)
                self.p = r3
                return v
            txt = s[self.p:r]
            self.p = r
            return int(txt)
        for o in OPS2:
            if s.startswith(o, self.p):
                self.p += 2
                return ('O', o)
        if c in OPS1:
            self.p += 1
            return ('O', c)
        raise PErr(self.p)


def read_one(s):
    r = R(s)
    e = r.sexpr()
    if r.p != len(s):
        raise PErr(r.p)
    return e
