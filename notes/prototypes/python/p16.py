import sys, random
sys.path.insert(0,'/repo')
from wawk.parser import parse_wawk
from wal.ast_defs import Operator, Symbol
def canon(x):
    if isinstance(x, list): return [canon(e) for e in x]
    if isinstance(x, Operator): return x.value
    if isinstance(x, Symbol): return 'S:'+x.name
    return x
# reference precedence climbing: || < && < (+ -) < (* /) ; all left assoc
def ref(tokens):
    pos=[0]
    def peek(): return tokens[pos[0]] if pos[0]<len(tokens) else None
    def nxt(): t=tokens[pos[0]]; pos[0]+=1; return t
    def atom():
        t=nxt()
        if t=='(':
            e=orx(); assert nxt()==')'; return e
        return t
    def mul():
        e=atom()
        while peek() in ('*','/'): o=nxt(); e=[o,e,atom()]
        return e
    def add():
        e=mul()
        while peek() in ('+','-'): o=nxt(); e=[o,e,mul()]
        return e
    def andx():
        e=add()
        while peek()=='&&': o=nxt(); e=[o,e,add()]
        return e
    def orx():
        e=andx()
        while peek()=='||': o=nxt(); e=[o,e,andx()]
        return e
    return orx()
rnd=random.Random(int(sys.argv[1]))
bad=0; N=int(sys.argv[2])
for i in range(N):
    n=rnd.randint(2,6)
    toks=[]
    kind=rnd.choice(['arith','logic','mixed'])
    for j in range(n):
        toks.append(rnd.randint(1,9))
        if j<n-1:
            toks.append(rnd.choice({'arith':['+','-','*','/'],'logic':['&&','||'],'mixed':['+','-','*','/','&&','||']}[kind]))
    src='BEGIN: { x = '+' '.join(map(str,toks))+'; }'
    try:
        p=parse_wawk(src)
        got=canon(p[0].action)[1][1][1]
    except Exception as e:
        got=('EXC',type(e).__name__)
    exp=ref(toks)
    if got!=exp:
        bad+=1
        if bad<=10: print(src,'\n  GOT',got,'\n  EXP',exp)
print('bad',bad,'of',N)
